"""Shared enumerators and oracles for the relational stand-ins C09-C14 (bounded, never a proof).

Everything here is written from the PROPERTY STATEMENTS with plain lists / tuples / nested loops:
  * joins        - nested-loop definition over the input rows (inner / left / full)
  * aggregate    - group rows by hand in first-appearance order, textbook reducers
  * sort         - pairwise lexicographic comparator + stable sort of the row positions
No oracle looks at serif's implementation; serif is only *called*.

Enumeration is by itertools.product over lists only (no set / dict iteration order), so the case
stream is identical under every PYTHONHASHSEED.
"""
import itertools
import functools
from collections import Counter
from datetime import date

from harness import *  # noqa
from serif.errors import SerifValueError, SerifTypeError  # noqa

# --------------------------------------------------------------------------------------
# value pools: a key *pattern* is written over {None, 0, 1, 2}; `kind` maps it to a typed value
# --------------------------------------------------------------------------------------
KIND_TYPE = {'int': int, 'str': str, 'bool': bool, 'date': date, 'ihc1': int, 'ihc2': int}
# 'ihc1' / 'ihc2' (int, hash-colliding): DIFFERENT ints whose Python hashes are EQUAL
#   hash(-1) == hash(-2) == -2            hash(0) == hash(2**61 - 1) == 0
# (tuple hashes are computed from the component hashes, so composite keys that differ only in such
# a component collide as well).  Key equality, not hash equality, decides a match / a group.
MERSENNE61 = 2 ** 61 - 1
KIND_POOL = {
    'int': {0: 0, 1: 1, 2: 2},
    'str': {0: 'a', 1: 'b', 2: 'c'},
    'bool': {0: False, 1: True},
    'date': {0: date(2020, 1, 1), 1: date(2021, 6, 15), 2: date(2022, 2, 2)},
    'ihc1': {0: -1, 1: -2, 2: 0},
    'ihc2': {0: 0, 1: MERSENNE61, 2: -1},
}
assert hash(-1) == hash(-2) and hash(0) == hash(MERSENNE61) and hash((-1, 0)) == hash((-2, MERSENNE61))
HC_KINDS = ('ihc1', 'ihc2')


def keyval(kind, p):
    return None if p is None else KIND_POOL[kind][p]


def mk_col(values, name, kind=None):
    """A named column.  A non-empty all-None key column is given its declared (nullable) kind
    explicitly, so that it is a well-typed '<kind>?' column holding only None (Python cannot say
    that by inference); every other column goes through serif's own inference."""
    values = list(values)
    if kind is not None and values and all(v is None for v in values):
        return Vector(values, dtype=DataType(KIND_TYPE[kind], True), name=name)
    return Vector(values, name=name)


def rows_of(t):
    """Rows of a table as tuples, read column by column through the public cols()."""
    cols = [list(c._underlying) for c in t.cols()]
    n = len(t)
    if not cols:
        return []
    if any(len(c) != n for c in cols):
        raise AssertionError(f'ragged result: len(t)={n}, column lengths {[len(c) for c in cols]}')
    return [tuple(c[i] for c in cols) for i in range(n)]


def rkey(row):
    """Type-faithful hashable image of a row (1 / True / 1.0 stay distinct)."""
    return tuple((type(x).__name__, repr(x)) for x in row)


def rows_same(a, b):
    return len(a) == len(b) and all(same(tuple(x), tuple(y)) for x, y in zip(a, b))


def classify_rows(got, want):
    """None when equal; otherwise a stable failure class."""
    if rows_same(got, want):
        return None
    if len(got) != len(want):
        return 'row-count'
    if Counter(map(rkey, got)) == Counter(map(rkey, want)):
        return 'row-order'
    return 'row-values'


# --------------------------------------------------------------------------------------
# joins
# --------------------------------------------------------------------------------------
JOIN_CONFIGS = [
    # (mode, names, n_left_payload, n_right_payload)
    ('name', 'same', 1, 1),
    ('col', 'diff', 2, 0),
    ('name', 'diff', 0, 2),
    ('ext', 'diff', 1, 2),
    ('col', 'same', 0, 0),
    ('name', 'same', 2, 2),
]


class JoinSetup:
    """Builds both tables of a join case and the plain-Python rows the oracle works on."""

    def __init__(self, case):
        self.case = case
        kinds = case['kinds']
        nk = len(kinds)
        mode, names = case['mode'], case['names']
        self.nk = nk
        lk = [tuple(r) for r in case['lk']]
        rk = [tuple(r) for r in case['rk']]
        self.lkeys = [tuple(keyval(kinds[j], r[j]) for j in range(nk)) for r in lk]
        self.rkeys = [tuple(keyval(kinds[j], r[j]) for j in range(nk)) for r in rk]
        lkn = [f'k{j}' for j in range(nk)]
        rkn = lkn if names == 'same' else [f'j{j}' for j in range(nk)]
        twin = case.get('twin') or ''
        if twin:
            # keys BY NAME on tables where a column whose name merely SANITISES to the requested name
            # stands BEFORE the column carrying exactly that name (see twin_join_cases)
            if mode != 'name':
                raise AssertionError('twin cases give their keys by name')
            off = case.get('twin_off', 0)
            lpairs = [TWIN_NAME_PAIRS[(j + off) % len(TWIN_NAME_PAIRS)] for j in range(nk)]
            rpairs = lpairs if names == 'same' else [TWIN_NAME_PAIRS_R[(j + off) % len(TWIN_NAME_PAIRS_R)] for j in range(nk)]
            lkn, rkn = [p[1] for p in lpairs], [p[1] for p in rpairs]
        lpn = [f'p{j}' for j in range(case['pl'])] if names == 'same' else [f'lp{j}' for j in range(case['pl'])]
        rpn = [f'p{j}' for j in range(case['pr'])] if names == 'same' else [f'rp{j}' for j in range(case['pr'])]
        lpay = [[self.marker('L', i, j) for i in range(len(lk))] for j in range(case['pl'])]
        rpay = [[self.marker('R', i, j) for i in range(len(rk))] for j in range(case['pr'])]
        lkc = [mk_col([k[j] for k in self.lkeys], lkn[j], kinds[j]) for j in range(nk)]
        rkc = [mk_col([k[j] for k in self.rkeys], rkn[j], kinds[j]) for j in range(nk)]
        lpc = [mk_col(lpay[j], lpn[j]) for j in range(case['pl'])]
        rpc = [mk_col(rpay[j], rpn[j]) for j in range(case['pr'])]
        if mode == 'ext':
            # keys are vectors that are NOT stored in the tables
            lcols, rcols = lpc, rpc
            self.lnames, self.rnames = lpn, rpn
            self.lrows = [tuple(lpay[j][i] for j in range(case['pl'])) for i in range(len(lk))]
            self.rrows = [tuple(rpay[j][i] for j in range(case['pr'])) for i in range(len(rk))]
        else:
            # left: keys then payload; right: payload then keys (both layouts are exercised)
            lcols, rcols = lkc + lpc, rpc + rkc
            self.lnames, self.rnames = lkn + lpn, rpn + rkn
            self.lrows = [self.lkeys[i] + tuple(lpay[j][i] for j in range(case['pl'])) for i in range(len(lk))]
            self.rrows = [tuple(rpay[j][i] for j in range(case['pr'])) + self.rkeys[i] for i in range(len(rk))]
            if 'L' in twin:
                # decoys first: ['Region ID', 'region_id', payload...]; their values are the key patterns
                # shifted cyclically, so pairing on a decoy gives other row pairs than pairing on the key
                dec = [tuple(keyval(kinds[j], decoy_pattern(r[j], 1)) for j in range(nk)) for r in lk]
                lcols = [mk_col([d[j] for d in dec], lpairs[j][0], kinds[j]) for j in range(nk)] + lcols
                self.lnames = [p[0] for p in lpairs] + self.lnames
                self.lrows = [dec[i] + self.lrows[i] for i in range(len(lk))]
            if 'R' in twin:
                dec = [tuple(keyval(kinds[j], decoy_pattern(r[j], 2)) for j in range(nk)) for r in rk]
                npr = case['pr']
                rcols = rcols[:npr] + [mk_col([d[j] for d in dec], rpairs[j][0], kinds[j]) for j in range(nk)] + rcols[npr:]
                self.rnames = self.rnames[:npr] + [p[0] for p in rpairs] + self.rnames[npr:]
                self.rrows = [self.rrows[i][:npr] + dec[i] + self.rrows[i][npr:] for i in range(len(rk))]
        self.L = Table(lcols)
        self.R = Table(rcols)
        ector = case.get('empty_ctor')
        if ector:
            # a ZERO-ROW side is not built from empty lists (untyped columns) but by filtering every
            # row out of a one-row table: it keeps its columns, their names and their dtypes
            if not lk:
                self.L, lkc = self._filtered_empty('L', ector, mode, lkn, lpn, case['pl'], keys_first=True)
            if not rk:
                self.R, rkc = self._filtered_empty('R', ector, mode, rkn, rpn, case['pr'], keys_first=False)
        if mode == 'name':
            self.lon, self.ron = list(lkn), list(rkn)
        elif mode == 'col':
            self.lon = [self.L.cols()[j] for j in range(nk)]
            self.ron = [self.R.cols()[case['pr'] + j] for j in range(nk)]
        else:
            self.lon, self.ron = lkc, rkc
        if nk == 1 and case.get('bare', True):
            # a single key may be passed bare (name or Vector) rather than in a list
            self.lon, self.ron = self.lon[0], self.ron[0]
        self.nl, self.nr = len(self.lnames), len(self.rnames)

    def _filtered_empty(self, side, ector, mode, kn, pn, npay, keys_first):
        """(zero-row table, zero-row external key vectors) obtained by filtering a one-row table:
        ector 'mask' = boolean mask that is False everywhere, 'slice' = [0:0]."""
        kinds = self.case['kinds']
        kc = [mk_col([keyval(kinds[j], 0)], kn[j], kinds[j]) for j in range(self.nk)]
        pc = [mk_col([self.marker(side, 0, j)], pn[j]) for j in range(npay)]

        def empty(x):
            return x[Vector([False])] if ector == 'mask' else x[0:0]

        if mode == 'ext':
            cols = pc
        else:
            cols = kc + pc if keys_first else pc + kc
        t = empty(Table(cols)) if cols else Table(cols)
        if len(t) != 0 or len(t.cols()) != len(cols):
            raise AssertionError(f'filtering every row out did not give a zero-row table with {len(cols)} columns: {view(t)!r}')
        return t, [empty(k) for k in kc]

    @staticmethod
    def marker(side, i, j):
        # payload 0: unique strings; payload 1: unique ints (a second dtype through the join)
        return f'{side}{i}' if j == 0 else (100 if side == 'L' else 200) + i

    def snapshot(self):
        extra = ()
        if self.case['mode'] == 'ext':
            ks = (self.lon if isinstance(self.lon, list) else [self.lon]) + (self.ron if isinstance(self.ron, list) else [self.ron])
            extra = tuple(view(k) for k in ks)
        return (view(self.L), view(self.R), extra)

    # ---- nested-loop definitions (from the statements of C09 / C10) ----
    def want_inner(self):
        out = []
        for i, l in enumerate(self.lrows):
            for j, r in enumerate(self.rrows):
                if self.lkeys[i] == self.rkeys[j]:
                    out.append(l + r)
        return out

    def want_left(self):
        out = []
        for i, l in enumerate(self.lrows):
            hit = False
            for j, r in enumerate(self.rrows):
                if self.lkeys[i] == self.rkeys[j]:
                    out.append(l + r)
                    hit = True
            if not hit:
                out.append(l + (None,) * self.nr)
        return out

    def want_full(self):
        out = self.want_left()
        for j, r in enumerate(self.rrows):
            if not any(self.lkeys[i] == self.rkeys[j] for i in range(len(self.lrows))):
                out.append((None,) * self.nl + r)
        return out

    def names(self):
        return self.lnames + self.rnames


def check_join_output(pid, op, res, want_rows, want_names, fails, descr, tag=''):
    """Compare a join result with the definition: rows (values, order), names, C03 truthfulness.
    `tag` (e.g. ':hash-colliding-keys') is appended to the row failure class for input families
    that expose a defect of their own."""
    m = truthful(res)
    if m:
        fails.append(Fail(f'C03:{op}:truthful', f'{descr}: {m}', None, m))
    try:
        got = rows_of(res)
    except AssertionError as e:
        fails.append(Fail(f'{pid}:{op}:ragged-result', f'{descr}: {e}', want_rows, str(e)))
        return None
    cls = classify_rows(got, want_rows)
    if cls:
        fails.append(Fail(f'{pid}:{op}:{cls}{tag}', f'{descr}: rows differ from the definition', want_rows, got,
                          f'{pid}:{op}:post'))
    names = list(res.column_names())
    # The statement speaks about the columns of each output ROW; for a zero-row result it does not
    # decide whether the (empty) columns are kept, so names are only compared when there are rows,
    # or when columns are present at all.
    if (want_rows or names) and names != want_names:
        fails.append(Fail(f'{pid}:{op}:column-names', f'{descr}: column_names() differ', want_names, names,
                          f'{pid}:{op}:wrap'))
    return got


def join_descr(case, op, expect_src="expect='many_to_many'"):
    return (f"{op}({expect_src}) kinds={case['kinds']} left keys={case['lk']} right keys={case['rk']} "
            f"mode={case['mode']} names={case['names']} payload={case['pl']}/{case['pr']}" + twin_descr(case))


def seqs(pool, max_rows, min_rows=0):
    for n in range(min_rows, max_rows + 1):
        for combo in itertools.product(pool, repeat=n):
            yield [list(k) for k in combo]


POOL1 = [(None,), (0,), (1,)]
POOL2_FULL = [(a, b) for a in (None, 0, 1) for b in (None, 0, 1)]
POOL2_3 = [(0, 0), (0, 1), (None, 0)]
POOL2_4 = POOL2_3 + [(1, 0)]
POOL2_5 = POOL2_4 + [(None, None)]
POOL2_6 = POOL2_5 + [(0, None)]
POOL3_4 = [(0, 0, 0), (0, 0, 1), (0, 1, 0), (None, 0, 0)]

KINDS1 = [['int'], ['str'], ['bool'], ['date']]
KINDS2 = [['int', 'int'], ['int', 'str'], ['str', 'date'], ['bool', 'int']]
KINDS3 = [['int', 'int', 'int'], ['str', 'int', 'date']]
# hash-colliding int keys: alone, and as one / both components of a composite key
KINDS1_HC = [['ihc1'], ['ihc2']]
KINDS2_HC = [['ihc1', 'ihc2'], ['ihc1', 'int'], ['str', 'ihc2']]
KINDS3_HC = [['ihc1', 'int', 'ihc2'], ['str', 'ihc2', 'ihc1']]
POOL1_3V = [(None,), (0,), (1,), (2,)]


def hc_tag(case):
    """Failure-class suffix for cases whose key values collide in hash."""
    if case.get('twin'):
        return ':key-named-like-an-earlier-sanitised-twin'
    return ':hash-colliding-keys' if any(k in HC_KINDS for k in case.get('kinds', ())) else ''


# ---- keys by name next to a column whose name only sanitises to the requested name ----------------
# (decoy name, exact key name): 'Region ID' -> region_id, 'A' -> a, 'Key-3' -> key_3 under the
# documented accessor sanitisation; the key is requested by the EXACT stored name of the second column.
TWIN_NAME_PAIRS = [('Region ID', 'region_id'), ('A', 'a'), ('Key-3', 'key_3')]
TWIN_NAME_PAIRS_R = [('Store ID', 'store_id'), ('B', 'b'), ('Key 4', 'key_4')]
_CYC3 = [None, 0, 1]
TWIN_CONFIGS = [
    # (names, n_left_payload, n_right_payload, bare single key)
    ('same', 1, 1, True), ('diff', 0, 1, False), ('same', 0, 0, False), ('diff', 2, 0, True), ('same', 1, 2, False), ('diff', 1, 1, True),
]


def decoy_pattern(p, shift):
    """Key pattern of the decoy column: the cycle None -> 0 -> 1 -> None applied `shift` times (the two
    sides use different shifts, so pairing decoy with decoy differs from pairing key with key too)."""
    return _CYC3[(_CYC3.index(p) + shift) % 3] if p in _CYC3 else p


def twin_descr(case):
    tw = case.get('twin')
    if not tw:
        return ''
    off = case.get('twin_off', 0)
    nk = len(case['kinds'])
    lp = [TWIN_NAME_PAIRS[(j + off) % 3] for j in range(nk)]
    rp = lp if case['names'] == 'same' else [TWIN_NAME_PAIRS_R[(j + off) % 3] for j in range(nk)]
    parts = []
    if 'L' in tw:
        parts.append(f'left columns {[p[0] for p in lp] + [p[1] for p in lp]} + payload, left_on={[p[1] for p in lp]}')
    if 'R' in tw:
        parts.append(f'right columns payload + {[p[0] for p in rp] + [p[1] for p in rp]}, right_on={[p[1] for p in rp]}')
    return ' [a column that only sanitises to the key name stands before the exactly named key column: ' + '; '.join(parts) + ']'


def twin_blocks(tier, heavy=False):
    """(label, pool, max_left, max_right, kinds-list): every pair of key-row sequences x twin side
    (left / right / both); kind, name offset and (names, payload, bare) configuration rotate."""
    if tier == 'quick':
        if heavy:
            return [('1key-twin', POOL1, 3, 3, [['int'], ['str']]),
                    ('2key-twin', POOL2_3, 2, 2, [['int', 'int'], ['str', 'int']]),
                    ('3key-twin', POOL3_4, 1, 2, [['int', 'int', 'int']])]
        return [('1key-twin', POOL1, 3, 3, [['int'], ['str']]),
                ('2key-twin', POOL2_4, 2, 2, [['int', 'int'], ['str', 'int']]),
                ('3key-twin', POOL3_4, 2, 2, [['int', 'int', 'int']])]
    return [('1key-twin', POOL1, 4, 3, KINDS1),
            ('2key-twin', POOL2_5, 2, 3, KINDS2),
            ('3key-twin', POOL3_4, 2, 2, KINDS3)]


def twin_join_cases(tier, heavy=False):
    for label, pool, ml, mr, kinds_list in twin_blocks(tier, heavy):
        idx = 0
        for lk in seqs(pool, ml):
            for rk in seqs(pool, mr):
                for tw in ('L', 'R', 'LR'):
                    idx += 1
                    names, pl, pr, bare = TWIN_CONFIGS[idx % len(TWIN_CONFIGS)]
                    yield {'block': label, 'kinds': kinds_list[(idx // 3) % len(kinds_list)], 'lk': lk, 'rk': rk, 'mode': 'name',
                           'names': names, 'pl': pl, 'pr': pr, 'bare': bare, 'twin': tw, 'twin_off': (idx // 7) % 3}


def _cfg(i):
    mode, names, pl, pr = JOIN_CONFIGS[i % len(JOIN_CONFIGS)]
    # 'bare': a single key is passed as a bare name / Vector instead of a one-element list
    return {'mode': mode, 'names': names, 'pl': pl, 'pr': pr, 'bare': (i // len(JOIN_CONFIGS)) % 2 == 0}


def join_blocks(tier, heavy=False):
    """The join scope as a list of blocks (pool, max_left, max_right, kinds-list, configs-per-pair).
    `heavy` (C10: four joins per case) uses the smaller quick budget."""
    if tier == 'quick':
        if heavy:
            return [
                ('1key', POOL1, 3, 3, [['int']], 2),
                ('1key-typed', POOL1, 3, 3, KINDS1[1:], 'rotate-kind'),
                ('2key-pool3', POOL2_3, 3, 3, [['int', 'int']], 1),
                ('2key-pool4', POOL2_4, 2, 2, [['int', 'int']], 1),
                ('2key-full', POOL2_FULL, 2, 1, KINDS2, 'rotate-kind'),
                ('2key-full', POOL2_FULL, 1, 2, KINDS2, 'rotate-kind'),
                ('1key-hashcollide', POOL1, 3, 3, KINDS1_HC, 'rotate-kind'),
                ('2key-hashcollide', POOL2_3, 3, 3, KINDS2_HC, 'rotate-kind'),
                ('2key-hashcollide', POOL2_4, 2, 2, KINDS2_HC, 1),
            ]
        return [
            ('1key', POOL1, 3, 3, [['int']], 2),
            ('1key-typed', POOL1, 3, 3, KINDS1[1:], 1),
            ('2key-pool4', POOL2_4, 3, 3, [['int', 'int']], 1),
            ('2key-full', POOL2_FULL, 2, 2, KINDS2, 'rotate-kind'),
            ('1key-hashcollide', POOL1, 3, 3, KINDS1_HC, 1),
            ('2key-hashcollide', POOL2_4, 3, 3, KINDS2_HC, 'rotate-kind'),
            ('3key-hashcollide', POOL3_4, 2, 2, KINDS3_HC, 1),
        ]
    if heavy:
        return [
            ('1key', POOL1, 4, 4, [['int']], 2),
            ('1key-typed', POOL1, 4, 4, KINDS1[1:], 'rotate-kind'),
            ('2key-pool5', POOL2_5, 3, 3, [['int', 'int']], 1),
            ('2key-full', POOL2_FULL, 2, 2, KINDS2, 'rotate-kind'),
            ('3key-pool4', POOL3_4, 3, 3, KINDS3, 'rotate-kind'),
            ('1key-hashcollide', POOL1, 4, 4, KINDS1_HC, 'rotate-kind'),
            ('1key-hashcollide-3values', POOL1_3V, 3, 3, KINDS1_HC, 1),
            ('2key-hashcollide', POOL2_5, 3, 3, KINDS2_HC, 'rotate-kind'),
            ('3key-hashcollide', POOL3_4, 3, 3, KINDS3_HC, 'rotate-kind'),
        ]
    return [
        ('1key', POOL1, 4, 4, [['int']], 4),
        ('1key-typed', POOL1, 4, 4, KINDS1[1:], 1),
        ('2key-pool6', POOL2_6, 3, 3, [['int', 'int']], 1),
        ('2key-pool5', POOL2_5, 3, 3, KINDS2[1:], 'rotate-kind'),
        ('2key-full', POOL2_FULL, 3, 2, KINDS2, 'rotate-kind'),
        ('2key-full', POOL2_FULL, 2, 3, KINDS2, 'rotate-kind'),
        ('3key-pool4', POOL3_4, 3, 3, KINDS3, 1),
        ('1key-hashcollide', POOL1, 4, 4, KINDS1_HC, 'rotate-kind'),
        ('1key-hashcollide-3values', POOL1_3V, 3, 3, KINDS1_HC, 2),
        ('2key-hashcollide', POOL2_5, 3, 3, KINDS2_HC, 'rotate-kind'),
        ('2key-hashcollide', POOL2_FULL, 2, 2, KINDS2_HC, 1),
        ('3key-hashcollide', POOL3_4, 3, 3, KINDS3_HC, 1),
    ]


def join_cases(tier, heavy=False):
    """Every (left key rows, right key rows) pair of each block, crossed with kinds / configs.
    Where the cross product is not taken in full, kind and config ROTATE with the pair index so
    that every pattern pair is run at least once and every kind / config sees every row shape."""
    for label, pool, ml, mr, kinds_list, ncfg in join_blocks(tier, heavy):
        lefts = list(seqs(pool, ml))
        rights = list(seqs(pool, mr))
        idx = 0
        for lk in lefts:
            for rk in rights:
                idx += 1
                if ncfg == 'rotate-kind':
                    kl = [kinds_list[idx % len(kinds_list)]]
                    cfgs = [idx // len(kinds_list)]
                else:
                    kl = kinds_list
                    cfgs = [idx + c for c in range(ncfg)] if ncfg < len(JOIN_CONFIGS) else list(range(len(JOIN_CONFIGS)))
                for ki, kinds in enumerate(kl):
                    for c in cfgs:
                        case = {'block': label, 'kinds': kinds, 'lk': lk, 'rk': rk}
                        case.update(_cfg(c + ki))
                        if case['mode'] == 'ext' and (case['pl'] == 0 or case['pr'] == 0):
                            case['mode'] = 'col'
                        yield case


def join_bound(tier, heavy=False):
    return {'blocks': [{'label': b[0], 'key_tuples_in_pool': len(b[1]), 'max_left_rows': b[2], 'max_right_rows': b[3],
                        'kinds': b[4], 'configs_per_pair': b[5]} for b in join_blocks(tier, heavy)],
            'configs(mode,names,left_payload,right_payload)': JOIN_CONFIGS,
            'twin_blocks(keys by name, a sanitised-twin column before the exactly named key column; side L/R/LR)':
                [{'label': b[0], 'key_tuples_in_pool': len(b[1]), 'max_left_rows': b[2], 'max_right_rows': b[3], 'kinds': b[4]}
                 for b in twin_blocks(tier, heavy)],
            'twin_names(decoy, key)': TWIN_NAME_PAIRS + TWIN_NAME_PAIRS_R}


def join_signature(case):
    lk = [tuple(r) for r in case['lk']]
    rk = [tuple(r) for r in case['rk']]
    if not lk and not rk:
        return None
    return (len(case['kinds']), tuple(case['kinds']), case['mode'], case['names'], case['pl'], case['pr'],
            len(lk), len(rk),
            len(set(lk)) < len(lk), len(set(rk)) < len(rk),
            any(None in k for k in lk + rk),
            any(k not in rk for k in lk), any(k not in lk for k in rk),
            any(k in rk for k in lk)) + ((case['twin'], case.get('twin_off', 0)) if case.get('twin') else ())


# --------------------------------------------------------------------------------------
# aggregate / window
# --------------------------------------------------------------------------------------
AGGS = ['sum', 'mean', 'min', 'max', 'count', 'stdev']
VAL_POOL = [None, 1, 2.5]
TOL = 1e-9


def textbook(agg, vals):
    """The textbook reducer over the non-None values of one group, in row order."""
    nn = [v for v in vals if v is not None]
    if agg == 'sum':
        s = 0
        for v in nn:
            s = s + v
        return s
    if agg == 'count':
        return len(nn)
    if not nn:
        return None
    if agg == 'mean':
        s = 0
        for v in nn:
            s = s + v
        return s / len(nn)
    if agg == 'min':
        m = nn[0]
        for v in nn[1:]:
            if v < m:
                m = v
        return m
    if agg == 'max':
        m = nn[0]
        for v in nn[1:]:
            if v > m:
                m = v
        return m
    if agg == 'stdev':
        if len(nn) < 2:
            return None
        mu = sum(nn) / len(nn)
        return (sum((v - mu) ** 2 for v in nn) / (len(nn) - 1)) ** 0.5
    raise KeyError(agg)


def close(a, b):
    """Numeric agreement within 1e-9; None only equals None; count-like ints must not be bool."""
    if a is None or b is None:
        return a is None and b is None
    if isinstance(a, bool) or isinstance(b, bool):
        return a is b
    if isinstance(a, (int, float)) and isinstance(b, (int, float)):
        return abs(a - b) <= TOL
    return same(a, b)


def group_by_hand(keys):
    """Distinct key tuples in first-appearance order, each with its ascending row list."""
    order, rows = [], []
    for i, k in enumerate(keys):
        for g, k2 in enumerate(order):
            if k2 == k:
                rows[g].append(i)
                break
        else:
            order.append(k)
            rows.append([i])
    return order, rows


def apply_fn_factory(log):
    def rec(vals):
        vals = list(vals)
        log.append(vals)
        return 'g:' + repr(vals)
    return rec


def apply_value(vals):
    return 'g:' + repr(list(vals))


class AggSetup:
    """Table + arguments for an aggregate()/window() case."""

    def __init__(self, case):
        self.case = case
        nk = case['nk']
        rows = case['rows']
        self.nk = nk
        self.keys = [tuple(r[:nk]) for r in rows]
        self.vals = [r[nk] for r in rows]
        mode = case['mode']
        kcols = [Vector([k[j] for k in self.keys], name=f'k{j}') for j in range(nk)]
        vcol = Vector(list(self.vals), name='v')
        pos = Vector(list(range(len(rows))), name='pos')
        if mode == 'ext':
            self.T = Table([pos, vcol])
            self.over = kcols
        else:
            self.T = Table(kcols + [pos, vcol])
            self.over = [f'k{j}' for j in range(nk)] if mode == 'name' else [self.T.cols()[j] for j in range(nk)]
        if nk == 1 and case.get('scalar_over', True):
            self.over = self.over[0]
        # aggregated column: by name or by the table's own column vector, alternating with mode
        self.vspec = 'v' if mode == 'name' else self.T.cols()[-1]
        self.log = []
        self.kwargs = {f'{a}_over': self.vspec for a in case['aggs']}
        if case['apply']:
            self.kwargs['apply'] = {'rec': (self.vspec, apply_fn_factory(self.log))}

    def snapshot(self):
        ov = self.over if isinstance(self.over, list) else [self.over]
        return (view(self.T), tuple(view(o) for o in ov if isinstance(o, Vector)))


def agg_tables(nk, key_pool, max_rows, min_rows=0, val_pool=None, shape=None):
    val_pool = VAL_POOL if val_pool is None else val_pool
    if shape == 'single-row-groups':
        # every row is a group of its own: row i has key key_pool[i] (distinct), any value
        for n in range(max(1, min_rows), min(max_rows, len(key_pool)) + 1):
            for start in range(len(key_pool)):
                ks = [key_pool[(start + i) % len(key_pool)] for i in range(n)]
                for combo in itertools.product(val_pool, repeat=n):
                    yield [list(k) + [v] for k, v in zip(ks, combo)]
        return
    per_row = [list(k) + [v] for k in key_pool for v in val_pool]
    for n in range(min_rows, max_rows + 1):
        for combo in itertools.product(per_row, repeat=n):
            yield [list(r) for r in combo]


# keys that differ but collide in hash (see KIND_POOL): alone and inside a composite key
POOL1_HCA = [(None,), (-1,), (-2,)]
POOL1_HCB = [(None,), (0,), (MERSENNE61,)]
POOL2_HC = [(-1, 0), (-2, 0), (-1, MERSENNE61), (None, 0)]
POOL0 = [()]                                  # over=[]: zero partition keys, one whole-table partition
POOL1_DISTINCT = [(0,), (None,), (1,), (2,)]
BOOL_VALS = [None, True, False]
NONE_VALS = [None]
# keys that are EQUAL (== and hash: one partition) but distinguishable values: signed zeros, bool / int / float
NEGZERO = -0.0
POOL1_EQ_ZERO = [(0.0,), (NEGZERO,), (None,)]
POOL1_EQ_LADDER = [(True,), (1,), (1.0,), (0,)]
POOL1_EQ_INTFLOAT = [(2,), (2.0,), (None,), (3,)]
POOL2_EQ = [('a', 2), ('a', 2.0), (None, 2.0), ('b', 2)]
POOL2_EQ_ZERO = [(0.0, True), (NEGZERO, 1), (0.0, 1.0)]
EQKEY_VALS = [None, 1]
EXTRA_AGG_BLOCKS = {
    # label: options (value pool, result-dtype check, table shape)
    'eqkeys-signed-zero': {'val_pool': EQKEY_VALS},
    'eqkeys-bool-int-float': {'val_pool': EQKEY_VALS},
    'eqkeys-int-float': {'val_pool': EQKEY_VALS},
    '2key-eqkeys': {'val_pool': [1]},
    '2key-eqkeys-signed-zero': {'val_pool': EQKEY_VALS},
    'bool-values': {'val_pool': BOOL_VALS, 'dtypes': True},
    'all-None-values': {'val_pool': NONE_VALS, 'dtypes': True},
    '2key-bool-values': {'val_pool': BOOL_VALS, 'dtypes': True},
    'single-row-groups': {'shape': 'single-row-groups', 'dtypes': True},
}


MODES = ['name', 'col', 'ext']
ALL_SUBSETS = [[a for i, a in enumerate(AGGS) if m >> i & 1] for m in range(64)]


def agg_blocks(tier, heavy=False):
    """(label, nk, key pool, min rows, max rows, plan) ; plan:
       'full+rot'   : one case with all six built-ins + apply, one case with a rotating subset
       'full'       : one case with all six built-ins + apply
       'rot'        : one case with a subset of the built-ins rotating with the table index
                      (all 64 subsets, apply on/off alternating every 64 tables)
       'subsets-light': every subset of the built-ins, apply alternating
       'subsets'    : every subset of the built-ins x apply on/off"""
    if tier == 'quick':
        if heavy:
            return [
                ('1key', 1, POOL1, 0, 3, 'full+rot'),
                ('1key-4rows', 1, POOL1, 4, 4, 'rot'),
                ('2key-pool4', 2, POOL2_4, 0, 3, 'full'),
                ('2key-full', 2, POOL2_FULL, 0, 2, 'rot'),
            ] + extra_agg_blocks(tier, heavy)
        return [
            ('1key', 1, POOL1, 0, 3, 'full+rot'),
            ('1key-4rows', 1, POOL1, 4, 4, 'rot'),
            ('1key-subsets', 1, POOL1, 0, 2, 'subsets-light'),
            ('2key-pool4', 2, POOL2_4, 0, 3, 'full'),
            ('2key-full', 2, POOL2_FULL, 0, 2, 'full+rot'),
        ] + extra_agg_blocks(tier)
    if heavy:
        return [
            ('1key', 1, POOL1, 0, 4, 'full+rot'),
            ('1key-subsets', 1, POOL1, 0, 2, 'subsets'),
            ('2key-pool5', 2, POOL2_5, 0, 4, 'rot'),
            ('2key-full', 2, POOL2_FULL, 0, 3, 'full'),
        ] + extra_agg_blocks(tier)
    return [
        ('1key', 1, POOL1, 0, 4, 'full+rot'),
        ('1key-subsets', 1, POOL1, 0, 3, 'subsets-light'),
        ('1key-subsets', 1, POOL1, 0, 2, 'subsets'),
        ('2key-pool5', 2, POOL2_5, 0, 4, 'full+rot'),
        ('2key-full', 2, POOL2_FULL, 0, 3, 'full+rot'),
    ] + extra_agg_blocks(tier)


def extra_agg_blocks(tier, heavy=False):
    """Blocks shared by C12 and C13: hash-colliding keys, zero partition keys (over=[]), bool and
    all-None value columns (with the result-dtype check), groups of exactly one row."""
    q = tier == 'quick'
    return [
        ('1key-hashcollide-neg', 1, POOL1_HCA, 0, 3 if q else 4, 'full'),
        ('1key-hashcollide-mersenne', 1, POOL1_HCB, 0, 3 if q else 4, 'full'),
        ('2key-hashcollide', 2, POOL2_HC, 0, 2 if q else 3, 'full'),
    ] + ([] if q and heavy else [('2key-hashcollide', 2, POOL2_HC, 3, 3, 'rot') if q else ('2key-hashcollide', 2, POOL2_HC, 4, 4, 'rot')]) + [
        ('0key', 0, POOL0, 1, 4 if q else 6, 'full+rot'),
        ('bool-values', 1, POOL1, 0, 3 if q else 4, 'full'),
        ('all-None-values', 1, POOL1, 0, 4 if q else 6, 'full+rot'),
        ('2key-bool-values', 2, POOL2_3, 0, 2 if q else 3, 'full'),
        ('single-row-groups', 1, POOL1_DISTINCT, 1, 3 if q else 4, 'full+rot'),
        # equal-but-distinguishable key cells (one partition; the cells themselves must come back unchanged)
        ('eqkeys-signed-zero', 1, POOL1_EQ_ZERO, 1, 3 if q else 4, 'full'),
        ('eqkeys-bool-int-float', 1, POOL1_EQ_LADDER, 1, 3 if q else 4, 'full'),
        ('eqkeys-int-float', 1, POOL1_EQ_INTFLOAT, 1, 3 if q else 4, 'full'),
        ('2key-eqkeys', 2, POOL2_EQ, 1, 3 if q else 4, 'full'),
        ('2key-eqkeys-signed-zero', 2, POOL2_EQ_ZERO, 1, 2 if q else 3, 'full'),
    ]


def agg_cases(tier, op, heavy=False):
    for label, nk, pool, lo, hi, plan in agg_blocks(tier, heavy):
        idx = 0
        opts = EXTRA_AGG_BLOCKS.get(label, {})
        for rows in agg_tables(nk, pool, hi, lo, opts.get('val_pool'), opts.get('shape')):
            idx += 1
            base = {'op': op, 'block': label, 'nk': nk, 'rows': rows}
            if opts.get('dtypes'):
                base['dtypes'] = True
            if plan in ('full', 'full+rot'):
                yield dict(base, mode=MODES[idx % 3], aggs=list(AGGS), apply=True)
            if plan in ('full+rot', 'rot'):
                sub = ALL_SUBSETS[idx % 64]
                if nk == 0 and not sub and not (idx // 64) % 2:
                    continue        # no key column and no aggregate: a table without columns has no rows to speak of
                yield dict(base, mode=MODES[(idx // 3) % 3], aggs=list(sub), apply=bool((idx // 64) % 2))
            if plan == 'subsets':
                for m, sub in enumerate(ALL_SUBSETS):
                    for ap in (False, True):
                        yield dict(base, mode=MODES[(idx + m) % 3], aggs=list(sub), apply=ap)
            if plan == 'subsets-light':
                for m, sub in enumerate(ALL_SUBSETS):
                    yield dict(base, mode=MODES[(idx + m) % 3], aggs=list(sub), apply=bool((idx + m) % 2))


def agg_bound(tier, heavy=False):
    return {'blocks': [dict({'label': b[0], 'key_columns': b[1], 'key_tuples_in_pool': len(b[2]), 'rows': [b[3], b[4]],
                             'plan': b[5]}, **{k: repr(v) for k, v in EXTRA_AGG_BLOCKS.get(b[0], {}).items()})
                       for b in agg_blocks(tier, heavy)],
            'value_pool': [repr(v) for v in VAL_POOL], 'key_modes': MODES}


def agg_signature(case):
    if case.get('op') == 'whole':
        return ('whole', len(case['vals']), sum(v is None for v in case['vals']))
    if case.get('op') == 'repeat':
        return ('repeat', case['target'], case['variant'], len(case['steps']), len(case['steps'][0][0]))
    if case.get('op') == 'precision':
        return ('precision', case['family'], case['layout'], len(case['vals']), sum(v is None for v in case['vals']))
    if case.get('op') == 'exactmean':
        return ('exactmean', case['family'], case['layout'], tuple(case['idx']))
    if case.get('op') == 'mutapply':
        return ('mutapply', case['target'], case['nk'], case['mode'], repr(case['rows']), tuple(case['order'][:2]), len(case['order']), bool(case['aggs']))
    nk = case['nk']
    keys = [tuple(r[:nk]) for r in case['rows']]
    vals = [r[nk] for r in case['rows']]
    if len(keys) < 2:
        return None
    order, rows = group_by_hand(keys)
    interleaved = any(r[-1] - r[0] + 1 != len(r) for r in rows)
    allnone_group = any(all(vals[i] is None for i in r) for r in rows)
    sig = (nk, case['mode'], len(keys), len(order), interleaved, allnone_group,
           any(None in k for k in keys), tuple(case['aggs']), case['apply'])
    if case['block'] in EXTRA_AGG_BLOCKS or 'hashcollide' in case['block']:
        sig += (case['block'],)
    return sig


def out_column(res, name):
    names = list(res.column_names())
    if name not in names:
        return None
    return list(res.cols()[names.index(name)]._underlying)


def agg_site(op, case):
    """Call-site name used in failure keys: input families that expose defects of their own
    (zero partition keys, hash-colliding keys) get their own site."""
    if case.get('nk') == 0:
        return op + '-zero-keys'
    if 'hashcollide' in case.get('block', ''):
        return op + '-hash-colliding-keys'
    if 'eqkeys' in case.get('block', ''):
        return op + '-equal-distinct-keys'
    return op


def cell_id(x):
    """Image of a cell that tells apart every value a reader can tell apart: 1 / True / 1.0, 0.0 / -0.0."""
    return (type(x).__name__, repr(x))


def input_key_columns(setup):
    """The key column vectors an AggSetup passes (external vectors, or the table's own columns)."""
    if setup.case['mode'] == 'ext':
        ov = setup.over if isinstance(setup.over, list) else [setup.over]
        return list(ov)
    return list(setup.T.cols()[:setup.nk])


def key_columns_changed(res, key_sigs, keys):
    """window: the partition key columns are reproduced UNCHANGED - every cell the very same value (type and
    repr: True is not 1, -0.0 is not 0.0) and the column dtype that of the input key column.
    key_sigs: schema_sig of each input key column taken before the call.  None, or (class, expected, observed)."""
    nk = len(key_sigs)
    for j in range(nk):
        got = list(res.cols()[j]._underlying)
        want = [k[j] for k in keys]
        if [cell_id(x) for x in got] != [cell_id(x) for x in want]:
            return 'cell-changed', want, got
    for j in range(nk):
        if schema_sig(res.cols()[j]) != key_sigs[j]:
            return 'dtype-changed', key_sigs[j], schema_sig(res.cols()[j])
    return None


def schema_sig(v):
    dt = v.schema()
    return None if dt is None else (dt.kind.__name__, dt.nullable)


def check_result_dtype(pid, op, agg, colvec, want_values, fails, descr):
    """Result columns are ordinary inferred columns: the dtype of an aggregate column is what
    Vector(<its values>) infers - e.g. the sum / count of a bool column is an int column, its
    min / max a bool column, an all-None result an untyped nullable column."""
    got = schema_sig(colvec)
    own = schema_sig(Vector(list(colvec._underlying)))
    want = schema_sig(Vector(list(want_values)))
    if got != own:
        fails.append(Fail(f'{pid}:{op}:{agg}:result-dtype-not-inferred',
                          f'{descr}: column {colvec._name!r} holds {list(colvec._underlying)!r} but declares {got}; '
                          f'Vector(values).schema() is {own}', own, got))
    elif got != want:
        fails.append(Fail(f'{pid}:{op}:{agg}:result-dtype',
                          f'{descr}: column {colvec._name!r} has dtype {got}; the textbook values {list(want_values)!r} make a {want} column',
                          want, got))


def named_column(res, name):
    names = list(res.column_names())
    return res.cols()[names.index(name)] if name in names else None


# ---- expected output of aggregate()/window() as plain columns, and a differ ----
def expected_output(op, keys, vals, aggs, apply):
    """(key rows, {column name: values}) of aggregate / window for one key column set."""
    order, grows = group_by_hand(keys)
    per_group = {}
    for a in aggs:
        per_group[f'v_{a}'] = [textbook(a, [vals[i] for i in rows]) for rows in grows]
    if apply:
        per_group['rec'] = [apply_value([vals[i] for i in rows]) for rows in grows]
    if op == 'aggregate':
        return list(order), per_group
    group_of = [next(g for g, k in enumerate(order) if k == key) for key in keys]
    return list(keys), {name: [col[g] for g in group_of] for name, col in per_group.items()}


def diff_output(res, nk, keyrows, cols):
    """None when `res` is the expected table; otherwise a stable class name."""
    if len(res.cols()) != nk + len(cols):
        return 'column-count'
    n = len(keyrows)
    if len(res) != n or any(len(c._underlying) != n for c in res.cols()):
        return 'row-count'
    got_keys = [tuple(list(c._underlying)[i] for c in res.cols()[:nk]) for i in range(n)]
    if not rows_same(got_keys, keyrows):
        return 'key-columns'
    for name, want in cols.items():
        col = out_column(res, name)
        if col is None:
            return 'missing-column'
        if name == 'rec':
            if col != want:
                return 'apply-values'
        elif not all(close(a, b) for a, b in zip(col, want)):
            return 'values'
    return None


# ---- repeated calls on ONE table object (no stale partition / cached column content) ----
REPEAT_AGGS = ['sum', 'count', 'min', 'max', 'mean']
REPEAT_VARIANTS = ['ext', 'view-name', 'view-col', 'view-val']


def repeat_cases(tier, op, variants=None):
    """Histories: a table is built once and aggregate()/window() is called on it several times.
      'ext'       each call gets a NEW external key Vector (created, used, dropped: the next one is
                  likely to live at the same address) with other keys;
      'view-name' the key column is overwritten cell by cell through its live view (t.k[i] = x)
                  between the calls, key given by name;   'view-col': ... key given as t.cols()[0];
      'view-val'  the VALUE column is overwritten through its live view between the calls.
    Every call must reflect the keys / values of its own moment."""
    variants = variants or REPEAT_VARIANTS
    kv3 = [list(c) for c in itertools.product([0, 1, None], repeat=3)]
    vv3 = [list(c) for c in itertools.product(VAL_POOL, repeat=3)]
    base_vals = [[1, 2.5, None], [2.5, 1, 1]]
    idx = 0
    for variant in variants:
        if variant == 'view-val':
            pairs = [([[0, 1, 0], a], [[0, 1, 0], b]) for a in vv3 for b in vv3 if a != b]
        else:
            pairs = [([a, base_vals[0]], [b, base_vals[0]]) for a in kv3 for b in kv3 if a != b]
        for p in pairs:
            idx += 1
            if tier == 'quick' and variant in ('view-col', 'view-val') and idx % 3:
                continue
            # external vectors: the address of a dropped vector is reused by the next one, or by the
            # one after it, depending on the allocator's state - so the second key vector is used by
            # three consecutive (new) vectors, each of which must be grouped by ITS keys
            yield {'op': 'repeat', 'target': op, 'variant': variant,
                   'steps': [p[0], p[1], p[1], p[1]] if variant == 'ext' else [p[0], p[1]]}
    # long runs: every key vector once, in three orders, then the 4-row vectors
    kv4 = [list(c) for c in itertools.product([0, 1, None], repeat=4)]
    runs = [kv3, kv3[::-1], kv3[::2] + kv3[1::2], kv4[::-1]] + ([kv4, kv4[::3] + kv4[1::3] + kv4[2::3]] if tier != 'quick' else [])
    for run in runs:
        for variant in variants:
            if variant == 'view-val':
                continue
            for vals in base_vals:
                vals = (vals + [2.5])[:len(run[0])]
                yield {'op': 'repeat', 'target': op, 'variant': variant, 'steps': [[k, vals] for k in run]}


def eval_repeat(pid, case):
    """Runs one history.  A step is reported only when its result differs from the oracle although
    the SAME call on a freshly built table / key vector gives the oracle's result - i.e. when the
    outcome depends on the history (single calls are the subject of the other blocks)."""
    op, variant, steps = case['target'], case['variant'], case['steps']
    n = len(steps[0][0])
    family = 'external-key-vectors' if variant == 'ext' else 'value-column-written-through-view' if variant == 'view-val' \
        else 'key-column-written-through-view'
    descr0 = f'{op}() called repeatedly on one table ({variant}, {len(steps)} calls, {n} rows)'
    aggs = REPEAT_AGGS
    kw_names = {f'{a}_over': 'v' for a in aggs}

    def call(table, over):
        log = []
        return getattr(table, op)(over, apply={'rec': ('v', apply_fn_factory(log))}, **kw_names)

    def build(keys, vals, with_key):
        cols = [Vector(list(vals), dtype=DataType(float, True), name='v')]
        if with_key:
            cols = [Vector(list(keys), dtype=DataType(int, True), name='k')] + cols
        return Table(cols)

    try:
        T = build(steps[0][0], steps[0][1], variant != 'ext')
        kview = T.k if variant != 'ext' else None
        vview = T.v
    except Exception as e:
        return [Fail(f'{pid}:setup:raises:{type(e).__name__}', f'{descr0}: building the table raised {e!r}', None, repr(e))]
    fails = []
    dt_key = DataType(int, True)
    k = Vector(list(steps[0][0]), dtype=dt_key, name='k') if variant == 'ext' else None
    for si, (keys, vals) in enumerate(steps):
        descr = f'{descr0}, call #{si + 1} with keys {keys} values {vals}' + (f' after a call with keys {steps[si - 1][0]} values {steps[si - 1][1]}' if si else '')
        try:
            if variant == 'ext':
                over = k
            else:
                for i in range(n):
                    if variant == 'view-val':
                        vview[i] = vals[i]
                    else:
                        kview[i] = keys[i]
                over = 'k' if variant in ('view-name', 'view-val') else T.cols()[0]
                if list(T.cols()[0]._underlying) != list(keys):
                    return fails      # the write did not take: not this property's business
            stored = list(T.cols()[-1]._underlying)       # what the value column holds now
            if stored != list(vals):
                return fails
            vals = stored
        except Exception as e:
            return fails + [Fail(f'{pid}:setup:raises:{type(e).__name__}', f'{descr}: preparing the call raised {e!r}', None, repr(e))]
        keyrows, cols = expected_output(op, [(x,) for x in keys], vals, aggs, True)
        try:
            res = call(T, over)
            cls = diff_output(res, 1, keyrows, cols)
            shown = rows_of(res) if cls else None
        except Exception as e:
            cls, shown = f'raises:{type(e).__name__}', repr(e)
        # drop the external key vector and create the next one right away (the pattern
        # `k = Vector(..); t.aggregate(over=k); del k; k = Vector(other keys)`: the new vector is
        # likely to be allocated where the old one lived)
        nxt = list(steps[si + 1][0]) if variant == 'ext' and si + 1 < len(steps) else None
        over = None
        k = None
        if nxt is not None:
            k = Vector(nxt, dtype=dt_key, name='k')
        if cls and si > 0:
            try:
                fresh = call(build(keys, vals, True), 'k')
                fresh_ok = diff_output(fresh, 1, keyrows, cols) is None
            except Exception:
                fresh_ok = False
            if fresh_ok:
                fails.append(Fail(f'{pid}:{op}-repeated:{family}:stale-{cls}',
                                  f'{descr}: the result does not reflect the current keys / values (a fresh table with the same '
                                  f'content gives the expected result)', (keyrows, cols), shown, f'{pid}:{op}:post'))
                return fails
        if cls:
            return fails          # wrong on a first / fresh call as well: a single-call defect (other blocks)
    return fails


# ---- stdev on values that are large relative to their spread ----
PRECISION_FAMILIES = [
    ('float-1e9-spread-1', [1e9 + 0.5, 1e9 + 1.0, 1e9 + 1.5]),
    ('int-1.79e9-spread-2', [1790000001, 1790000002, 1790000003]),
    ('float-1e5-spread-0.1', [100000.0, 100000.05, 100000.1]),
]
REL_TOL = 1e-9


def exact_stdev(vals):
    """Sample standard deviation of the non-None values from exact rational arithmetic."""
    import math
    from fractions import Fraction
    nn = [Fraction(v) for v in vals if v is not None]
    if len(nn) < 2:
        return None
    mu = sum(nn) / len(nn)
    var = sum((x - mu) ** 2 for x in nn) / (len(nn) - 1)
    return math.sqrt(var)


def precise(got, ref, vals):
    """Agreement at RELATIVE tolerance 1e-9 (a zero reference - all values equal - allows a residue
    of 1e-12 of the values' magnitude, which the two-pass textbook formula stays far below)."""
    if ref is None or got is None:
        return ref is None and got is None
    if isinstance(got, bool) or not isinstance(got, (int, float)) or got != got:
        return False
    if ref == 0:
        return abs(got) <= 1e-12 * max(abs(v) for v in vals if v is not None)
    return abs(got - ref) <= REL_TOL * ref


def precision_cases(tier):
    hi = 4 if tier == 'quick' else 5
    for fam, pool in PRECISION_FAMILIES:
        for n in range(2, hi + 1):
            for combo in itertools.product(pool + [None], repeat=n):
                for layout in ('one-group', 'two-groups'):
                    if layout == 'two-groups' and n < 3:
                        continue
                    yield {'op': 'precision', 'family': fam, 'layout': layout, 'vals': list(combo)}


def precision_groups(case):
    """(keys, row lists per group in first-appearance order) of a precision case."""
    n = len(case['vals'])
    keys = [0] * n if case['layout'] == 'one-group' else [i % 2 for i in range(n)]
    order, grows = group_by_hand([(k,) for k in keys])
    return keys, grows


# ---- custom apply functions that treat their argument as a SEQUENCE --------------------------------
# The statement hands apply "each group's values (None included) in row order": a function written for a
# list - len(), indexing, slicing, reversed(), two passes over the same argument - must work and give
# what it gives on the plain Python list of the group's values.
def _ap_len(vals):
    return len(vals)


def _ap_ends(vals):
    return f'{vals[0]!r}..{vals[-1]!r}'


def _ap_mid(vals):
    return repr(vals[len(vals) // 2])


def _ap_slice(vals):
    return repr(list(vals[1:])) + repr(list(vals[::-1]))


def _ap_reversed(vals):
    return repr(list(reversed(vals)))


def _ap_two_pass_variance(vals):
    n, total = 0, 0.0
    for v in vals:                     # pass 1: mean of the non-None values
        if v is not None:
            n += 1
            total += v
    if n < 2:
        return None
    mu = total / n
    ss = 0.0
    for v in vals:                     # pass 2: over the SAME argument
        if v is not None:
            ss += (v - mu) ** 2
    return ss / (n - 1)


def _ap_twice(vals):
    a = [x for x in vals]
    b = [x for x in vals]
    return f'{a!r}|{b!r}'


def _ap_len_then_iter(vals):
    n = len(vals)
    return f'{n}:{[x for x in vals]!r}:{sum(1 for x in vals if x is None)}'


# name -> (function, capability class used in failure keys)
SEQ_APPLY = {
    'len': (_ap_len, 'len'), 'ends': (_ap_ends, 'index'), 'mid': (_ap_mid, 'index'), 'slice': (_ap_slice, 'index'),
    'reversed': (_ap_reversed, 'reversed'), 'two_pass_variance': (_ap_two_pass_variance, 're-iterate'),
    'twice': (_ap_twice, 're-iterate'), 'len_then_iter': (_ap_len_then_iter, 're-iterate'),
}
SEQ_APPLY_NAMES = list(SEQ_APPLY)


def seq_apply_cases(tier, op):
    q = tier == 'quick'
    blocks = [(1, POOL1, 1, 3 if q else 4), (2, POOL2_3, 1, 2 if q else 3), (0, POOL0, 1, 3 if q else 4)]
    for nk, pool, lo, hi in blocks:
        idx = 0
        for rows in agg_tables(nk, pool, hi, lo):
            idx += 1
            yield {'op': 'seqapply', 'target': op, 'block': 'seq-apply', 'nk': nk, 'rows': rows, 'mode': MODES[idx % 3],
                   'aggs': [], 'apply': False, 'scalar_over': bool((idx // 3) % 2)}


class SeqApplySetup(AggSetup):
    """AggSetup whose apply dict holds every SEQ_APPLY function (wrapped so that the function that was
    running when a call raised, and the argument types, are known)."""

    def __init__(self, case):
        super().__init__(case)
        self.running = [None]

        def wrap(name, fn):
            def run(vals):
                self.running[0] = name
                out = fn(vals)
                self.running[0] = None
                return out
            return run
        self.kwargs = {'apply': {f'f_{name}': (self.vspec, wrap(name, fn)) for name, (fn, _) in SEQ_APPLY.items()}}


def seq_apply_expected(op, keys, vals):
    """{column name: expected values} (per group for aggregate, per row for window)."""
    order, grows = group_by_hand(keys)
    group_of = [next(g for g, k in enumerate(order) if k == key) for key in keys]
    out = {}
    for name, (fn, _) in SEQ_APPLY.items():
        per_group = [fn([vals[i] for i in rows]) for rows in grows]
        out[f'f_{name}'] = per_group if op == 'aggregate' else [per_group[g] for g in group_of]
    return out


def check_seq_apply(pid, op, site, res, expected, fails, descr):
    for name, (fn, cap) in SEQ_APPLY.items():
        col = out_column(res, f'f_{name}')
        want = expected[f'f_{name}']
        if col is None:
            fails.append(Fail(f'{pid}:{site}:apply:missing-column', f'{descr}: no output column f_{name}', f'f_{name}', list(res.column_names())))
            continue
        ok = len(col) == len(want) and all(close(a, b) if isinstance(b, float) or b is None else a == b for a, b in zip(col, want))
        if not ok:
            fails.append(Fail(f'{pid}:{site}:apply-sequence-argument:{cap}:value',
                              f'{descr}: apply function {name!r} (uses its argument as a list: {cap}) gives {col!r}; on the plain list of each '
                              f"group's values (None included, row order) it gives {want!r}", want, col, f'{pid}:{op}:apply'))


# ---- custom apply functions that MODIFY the list they are given ---------------------------------------
# "a custom apply function receives each group's values (None included) in row order exactly once": what one
# function does to its argument (sort it, pop from it, strip the None entries, clear it) is its own business -
# every other aggregation of the same call (later or earlier apply entries, the built-ins) still gets the
# group's values.  Oracle: each function run on a FRESH plain list of the group's values.
def _none_last(x):
    return (x is None, 0 if x is None else x)


def _mut_sort_median(vals):
    try:
        vals.sort(key=_none_last)
        s = vals
    except AttributeError:
        s = sorted(vals, key=_none_last)
    return repr(s[len(s) // 2]) if len(s) else 'empty'


def _mut_pop_last(vals):
    try:
        return repr(vals.pop())
    except AttributeError:
        return repr(vals[-1])
    except IndexError:
        return 'empty'


def _mut_pop_first(vals):
    try:
        return repr(vals.pop(0))
    except AttributeError:
        return repr(vals[0])
    except IndexError:
        return 'empty'


def _mut_drop_none(vals):
    try:
        while None in vals:
            vals.remove(None)
        return len(vals)
    except AttributeError:
        return sum(1 for v in vals if v is not None)


def _mut_clear(vals):
    n = len(vals)
    try:
        vals.clear()
    except AttributeError:
        pass
    return n


def _mut_reverse(vals):
    try:
        vals.reverse()
        return repr(list(vals))
    except AttributeError:
        return repr(list(reversed(vals)))


def _mut_append(vals):
    try:
        vals.append(99)
        return len(vals)
    except AttributeError:
        return len(vals) + 1


def _mut_overwrite(vals):
    out = repr(list(vals))
    try:
        for i in range(len(vals)):
            vals[i] = 0
    except TypeError:
        pass
    return out


def _obs_spell(vals):
    return repr(list(vals))


def _obs_first(vals):
    return repr(vals[0]) if len(vals) else 'empty'


def _obs_last(vals):
    return repr(vals[-1]) if len(vals) else 'empty'


def _obs_count_none(vals):
    return f'{len(vals)}/{sum(1 for v in vals if v is None)}'


MUT_APPLY = {
    'sort_median': _mut_sort_median, 'spell': _obs_spell, 'pop_last': _mut_pop_last, 'first': _obs_first,
    'drop_none': _mut_drop_none, 'count_none': _obs_count_none, 'clear': _mut_clear, 'last': _obs_last,
    'reverse': _mut_reverse, 'pop_first': _mut_pop_first, 'append': _mut_append, 'overwrite': _mut_overwrite,
}
MUT_APPLY_NAMES = list(MUT_APPLY)
MUT_POOL1 = [(0,), (None,)]


def mut_apply_orders(idx, tier):
    """Orders of the apply dict: rotations of the function list and their reverses (an order together with
    its reverse puts every function both before and after every other one)."""
    n = len(MUT_APPLY_NAMES)
    rots = range(n) if tier != 'quick' else [idx % n, (idx + 5) % n]
    out = []
    for r in rots:
        o = MUT_APPLY_NAMES[r:] + MUT_APPLY_NAMES[:r]
        out.append(o)
        out.append(o[::-1])
    return out


def mut_apply_cases(tier, op):
    q = tier == 'quick'
    blocks = [(1, MUT_POOL1, 2, 3 if q else 4), (2, POOL2_3, 1, 2), (0, POOL0, 1, 3)]
    idx = 0
    for nk, pool, lo, hi in blocks:
        for rows in agg_tables(nk, pool, hi, lo):
            idx += 1
            for j, order in enumerate(mut_apply_orders(idx, tier)):
                yield {'op': 'mutapply', 'target': op, 'block': 'mut-apply', 'nk': nk, 'rows': rows, 'mode': MODES[(idx + j) % 3],
                       'aggs': list(AGGS) if (idx + j) % 2 else [], 'apply': False, 'order': order}
    if not q:       # every ordered pair of functions alone in the dict (two-row tables)
        for rows in agg_tables(1, MUT_POOL1, 2, 2):
            for a in MUT_APPLY_NAMES:
                for b in MUT_APPLY_NAMES:
                    if a != b:
                        idx += 1
                        yield {'op': 'mutapply', 'target': op, 'block': 'mut-apply', 'nk': 1, 'rows': rows, 'mode': MODES[idx % 3],
                               'aggs': [AGGS[idx % 6]], 'apply': False, 'order': [a, b]}


class MutApplySetup(AggSetup):
    """AggSetup whose apply dict holds case['order'] (entries alternate between naming the column and passing
    the table's own column vector), next to the built-ins of case['aggs'] on the same column."""

    def __init__(self, case, only=None):
        super().__init__(case)
        entries = [(i, name) for i, name in enumerate(case['order']) if only is None or i == only]
        colvec = self.T.cols()[-1]
        self.kwargs = {f'{a}_over': self.vspec for a in (case['aggs'] if only is None else [])}
        self.kwargs['apply'] = {f'm{i}_{name}': (('v' if i % 2 == 0 else colvec), MUT_APPLY[name]) for i, name in entries}


def mut_apply_expected(op, case, keys, vals):
    """{column name: expected values} (per group for aggregate, per row for window)."""
    order, grows = group_by_hand(keys)
    group_of = [next(g for g, k in enumerate(order) if k == key) for key in keys]
    out = {}
    for a in case['aggs']:
        out[f'v_{a}'] = [textbook(a, [vals[i] for i in rows]) for rows in grows]
    for i, name in enumerate(case['order']):
        out[f'm{i}_{name}'] = [MUT_APPLY[name]([vals[i2] for i2 in rows]) for rows in grows]      # a fresh list each time
    if op == 'window':
        out = {name: [col[g] for g in group_of] for name, col in out.items()}
    return out


def eval_mutapply(pid, case):
    op = case['target']
    descr = (f"{op}(over={case['mode']} x{case['nk']}, {'+'.join(case['aggs']) or 'no built-ins'}, apply=<{', '.join(case['order'])}> "
             f"all on column v) on rows(keys..., v)={case['rows']}")
    try:
        s = MutApplySetup(case)
    except Exception as e:
        return [Fail(f'{pid}:setup:raises:{type(e).__name__}', f'{descr}: building the table raised {e!r}', None, repr(e))]
    before = s.snapshot()
    site = agg_site(op, case)
    fails = []
    want = mut_apply_expected(op, case, s.keys, s.vals)
    try:
        res = getattr(s.T, op)(s.over, **s.kwargs)
    except Exception as e:
        return [Fail(f'{pid}:{site}:apply-mutating-argument:raises:{type(e).__name__}', f'{descr}: raised {e!r}', want, repr(e), f'{pid}:{op}:apply')]
    try:
        m = truthful(res)
        if m:
            fails.append(Fail(f'C03:{op}:truthful', f'{descr}: {m}', None, m))
        seen = set()
        for name, exp in want.items():
            col = out_column(res, name)
            builtin = name.startswith('v_')
            victim = name[2:] if builtin else 'apply'
            if col is None:
                fails.append(Fail(f'{pid}:{site}:apply-mutating-argument:{victim}:missing-column', f'{descr}: no output column {name}', name,
                                  list(res.column_names())))
                continue
            ok = len(col) == len(exp) and all(close(a, b) if builtin else (type(a) is type(b) and a == b) for a, b in zip(col, exp))
            if ok:
                continue
            # the same function alone, on a fresh table: right there => the value depends on the OTHER entries of the call
            cls = 'value'
            try:
                if builtin:
                    s1 = AggSetup(dict(case, aggs=[victim], apply=False))
                else:
                    s1 = MutApplySetup(case, only=int(name[1:name.index('_')]))
                alone = out_column(getattr(s1.T, op)(s1.over, **s1.kwargs), name)
                if alone is not None and len(alone) == len(exp) and all(close(a, b) if builtin else a == b for a, b in zip(alone, exp)):
                    cls = 'changed-by-other-apply-entries'
            except Exception:
                pass
            key = f'{pid}:{site}:apply-mutating-argument:{victim}:{cls}'
            if key in seen:
                continue
            seen.add(key)
            what = ('built-in ' + victim) if builtin else f'apply function {name[name.index("_") + 1:]!r} (entry {name})'
            fails.append(Fail(key, f"{descr}: {what} gives {col!r}; on a fresh plain list of each group's values (None included, row order) "
                                   f'it gives {exp!r}', exp, col, f'{pid}:{op}:apply'))
    except Exception as e:
        fails.append(Fail(f'{pid}:{site}:malformed-result', f'{descr}: result could not be read: {e!r}', None, repr(e)))
    if s.snapshot() != before:
        fails.append(Fail(f'{pid}:{site}:input-modified', f'{descr}: the table or a key vector changed', before, s.snapshot()))
    return fails


# ---- mean on values that do not survive a conversion to double -------------------------------------
from fractions import Fraction          # noqa: E402
from decimal import Decimal             # noqa: E402

EXACT_MEAN_FAMILIES = [
    ('bigint', [1, 2 ** 53 + 1, 2 ** 53 + 3, -(2 ** 53 + 1)]),
    ('fraction', [Fraction(1, 3), Fraction(1, 7), Fraction(5, 2)]),
    ('decimal', [Decimal('0.1'), Decimal('0.2'), Decimal('1.15')]),
    ('float', [0.1, 0.2, 2.5]),
]
EXACT_MEAN_POOLS = dict(EXACT_MEAN_FAMILIES)
MEAN_REL_TOL = 1e-12


def exactmean_cases(tier):
    hi = 3 if tier == 'quick' else 4
    for fam, pool in EXACT_MEAN_FAMILIES:
        choices = [None] + list(range(len(pool)))
        for n in range(1, hi + 1):
            for combo in itertools.product(choices, repeat=n):
                for layout in ('one-group', 'two-groups'):
                    if layout == 'two-groups' and n < 2:
                        continue
                    yield {'op': 'exactmean', 'family': fam, 'layout': layout, 'idx': list(combo)}


def exactmean_vals(case):
    pool = EXACT_MEAN_POOLS[case['family']]
    return [None if i is None else pool[i] for i in case['idx']]


def exactmean_groups(case):
    n = len(case['idx'])
    keys = [0] * n if case['layout'] == 'one-group' else [i % 2 for i in range(n)]
    order, grows = group_by_hand([(k,) for k in keys])
    return keys, grows


def python_mean(vals):
    """sum / len over the non-None values, in the element type, as Python computes it ('skip' when
    Python itself cannot)."""
    nn = [v for v in vals if v is not None]
    if not nn:
        return None
    try:
        return sum(nn) / len(nn)
    except Exception:
        return 'skip'


def mean_verdict(family, got, vals):
    """None when `got` is the mean of the non-None `vals`; else (class, expected).  int / Fraction /
    Decimal: exact whenever Python's `/` is exact for the group, else relative 1e-12; floats: relative 1e-12."""
    want = python_mean(vals)
    if isinstance(want, str):
        return None
    if want is None or got is None:
        return None if (want is None and got is None) else ('none-mismatch', want)
    nn = [v for v in vals if v is not None]
    if isinstance(got, bool):
        return ('result-type', want)
    if family in ('bigint', 'float'):
        if not isinstance(got, (int, float, Fraction)) or (isinstance(got, float) and got != got):
            return ('result-type', want)
        exact = sum(Fraction(v) for v in nn) / len(nn)
        if family == 'bigint' and Fraction(want) == exact:
            return None if Fraction(got) == exact else ('inexact', want)
        return None if abs(Fraction(got) - exact) <= Fraction(MEAN_REL_TOL) * abs(exact) else ('imprecise', want)
    kind = Fraction if family == 'fraction' else Decimal
    if not isinstance(got, kind):
        try:
            near = abs(Fraction(got) - Fraction(want)) <= Fraction(MEAN_REL_TOL) * abs(Fraction(want))
        except Exception:
            near = False
        return ('result-type' if near and Fraction(got) == Fraction(want) else 'inexact', want)
    if want * len(nn) == sum(nn):                     # Python's division was exact
        return None if got == want else ('inexact', want)
    return None if abs(got - want) <= kind('1e-12') * abs(want) else ('imprecise', want)


# --------------------------------------------------------------------------------------
# sorting
# --------------------------------------------------------------------------------------
def sort_oracle(keycols, revs, na_last):
    """Positions 0..n-1 in the order the statement prescribes: lexicographic by the keys, each in
    its own direction; None after (before, if not na_last) every value WHATEVER the direction;
    full ties keep the original order."""
    n = len(keycols[0]) if keycols else 0

    def cmp(a, b):
        for col, rev in zip(keycols, revs):
            x, y = col[a], col[b]
            if x is None and y is None:
                continue
            if x is None:
                return 1 if na_last else -1
            if y is None:
                return -1 if na_last else 1
            if x == y:
                continue
            lt = x < y
            if rev:
                lt = not lt
            return -1 if lt else 1
        return -1 if a < b else (1 if a > b else 0)     # stability: original position decides

    return sorted(range(n), key=functools.cmp_to_key(cmp))


def classify_sort(got_pos, want_pos, keycols, na_last):
    """Failure class of a wrong permutation (positions are original row indices)."""
    if sorted(got_pos) != sorted(want_pos):
        return 'not-a-permutation'
    first = keycols[0]
    gn = [first[p] is None for p in got_pos]
    wn = [first[p] is None for p in want_pos]
    if gn != wn:
        return 'none-placement'
    gk = [tuple(c[p] for c in keycols) for p in got_pos]
    wk = [tuple(c[p] for c in keycols) for p in want_pos]
    if gk == wk:
        return 'stability'
    for c in keycols[1:]:
        if [c[p] is None for p in got_pos] != [c[p] is None for p in want_pos]:
            return 'none-placement-secondary-key'
    return 'order'


# ======================================================================================
# joins, round-4 additions (used by C09 / C10; new names only, nothing above is changed):
#   * adversarial key texts   (adv_text_join_cases)
#   * larger tables           (large_join_cases)
#   * the same call repeated after a write to a key cell / a rename of a key column
#                             (rejoin_cases, eval_rejoin)
# ======================================================================================
# ---- adversarial key texts -----------------------------------------------------------------------
# str key components that contain characters an implementation might use to glue a composite key into
# one string (unit / record separator, NUL, comma, bar, blank, tab, slash), the empty string, components
# that are concatenations of other components, and look-alikes of a tuple's repr.  DIFFERENT key tuples
# stay different however their components could be glued together: only equal tuples pair.
ADV_SEPS = ['\x1f', '\x00', ',', '|', ' ', '\t', '\x1e', '/']
ADV_MIXED = ['\x1f', '\x00', ',', '|', '', ' ', 'a,b', 'a', 'b', 'ab', 'a\x1fb', 'x\x1fy', 'y\x1fz', 'x', 'y', 'z',
             "('a', 'b')", "a', 'b", "'a'", '(a, b)', "a'", "'b", 'a|b', 'None']


def adv_family_pool(sep, nk):
    """Components around ONE separator: shifting it between neighbouring components gives other tuples
    with the same glued text (('a<sep>b', 'a') / ('a', 'b<sep>a'); ('', '<sep>') / ('<sep>', ''))."""
    if sep == '':                                   # plain concatenation
        return ['', 'a', 'b', 'aa', 'ab', 'ba'] if nk == 2 else ['', 'a', 'aa', 'b']
    if nk == 2:
        return ['', 'a', 'b', sep, 'a' + sep + 'b', 'b' + sep + 'a', sep + 'a', 'a' + sep, 'ab']
    return ['', 'a', sep, 'a' + sep + 'a', sep + 'a', 'a' + sep]


ADV_TEXTS = []
for _sep in ADV_SEPS + ['']:
    for _nk in (2, 3):
        for _s in adv_family_pool(_sep, _nk):
            if _s not in ADV_TEXTS:
                ADV_TEXTS.append(_s)
for _s in ADV_MIXED:
    if _s not in ADV_TEXTS:
        ADV_TEXTS.append(_s)
KIND_TYPE['atext'] = str
KIND_POOL['atext'] = dict(enumerate(ADV_TEXTS))          # pattern i -> ADV_TEXTS[i]
# wide pools for the larger tables: pattern i -> i / 'k007'
KIND_TYPE['wint'] = int
KIND_TYPE['wstr'] = str
KIND_POOL['wint'] = {i: i for i in range(1000)}
KIND_POOL['wstr'] = {i: 'k%03d' % i for i in range(1000)}


def adv_families(tier, heavy=False):
    """(label, key columns, component texts)"""
    q = tier == 'quick'
    fams = []
    for i, sep in enumerate(ADV_SEPS + ['']):
        name = 'concat' if sep == '' else 'sep-%02x' % ord(sep)
        fams.append((f'advtext-2key-{name}', 2, adv_family_pool(sep, 2)))
        if not (q and heavy and i % 2):
            fams.append((f'advtext-3key-{name}', 3, adv_family_pool(sep, 3)))
    fams.append(('advtext-2key-mixed', 2, ADV_MIXED if not (q and heavy) else ADV_MIXED[:16]))
    if not q:
        fams.append(('advtext-3key-mixed', 3, ADV_MIXED[:9]))
    return fams


def adv_text_join_cases(tier, heavy=False):
    """Per family two pairs of tables over ALL key tuples of the family's components:
       'all-vs-all'   left = every tuple once, right = every tuple once in reversed order followed by a
                      second copy of the first three (some many-to-one pairs);
       'halves'       left = the tuples at even positions (+ one None-keyed row, so nullable key columns),
                      right = those at odd positions plus every fourth tuple: most rows are unmatched
                      although their glued texts have a partner on the other side."""
    idx = 0
    for label, nk, texts in adv_families(tier, heavy):
        ids = [ADV_TEXTS.index(s) for s in texts]
        tuples = [list(c) for c in itertools.product(ids, repeat=nk)]
        layouts = [('all-vs-all', tuples, tuples[::-1] + tuples[:3]),
                   ('halves', tuples[0::2] + [[None] + tuples[1][1:]], tuples[1::2] + tuples[0::4])]
        for lay, lk, rk in layouts:
            idx += 1
            case = {'block': label, 'layout': lay, 'kinds': ['atext'] * nk, 'lk': lk, 'rk': rk}
            case.update(_cfg(idx))
            if case['mode'] == 'ext' and (case['pl'] == 0 or case['pr'] == 0):
                case['mode'] = 'col'
            yield case


# ---- larger tables ---------------------------------------------------------------------------------
LARGE_SIZES = [9, 12, 17, 33]
LARGE_RIGHT = ['distinct', 'paired', 'cyclic']
LARGE_KINDS = [['wint'], ['wstr'], ['wint', 'wstr'], ['wint']]


def large_right_keys(variant, n):
    if variant == 'distinct':
        return list(range(n))
    if variant == 'paired':
        return [j // 2 for j in range(n)]               # neighbouring rows share a key
    return [j % 5 for j in range(n)]                    # five keys, their rows interleaved


def large_matched(n):
    """(label, matched right ROW positions): the left table holds exactly the keys of these rows."""
    return [
        ('low-half', list(range(n // 2 + 1))),            # unmatched right rows at the high positions
        ('high-half', list(range(n // 2, n))),
        ('evens', list(range(0, n, 2))), ('odds', list(range(1, n, 2))),
        ('all-but-4th-and-last', [j for j in range(n) if j not in (3, n - 1)]),
        ('all-but-first-and-9th', [j for j in range(n) if j not in (0, 8)]),
        ('first-five', list(range(5))), ('only-last', [n - 1]), ('every-third', list(range(0, n, 3))),
        ('none', []), ('all', list(range(n))),
    ]


def large_join_cases(tier, heavy=False):
    """Right tables of 9 / 12 / 17 / 33 rows (distinct keys, neighbouring duplicates, interleaved duplicates),
    left tables that hold the keys of a structured subset of the right rows - ascending or descending, an
    unmatched (foreign) key after every second row, optionally every key twice - so several matched and
    several unmatched rows on both sides, unmatched rows at high positions and interleaved."""
    idx = 0
    for n in LARGE_SIZES:
        for variant in LARGE_RIGHT:
            rkeys = large_right_keys(variant, n)
            for mlabel, rows in large_matched(n):
                for order in ('asc', 'desc-twice'):
                    idx += 1
                    if tier == 'quick' and heavy and (idx + n) % 2:
                        continue
                    keys = []
                    for j in rows:
                        if rkeys[j] not in keys:
                            keys.append(rkeys[j])
                    if order == 'desc-twice':
                        keys = [k for k in keys[::-1] for _ in (0, 1)]
                    lkeys = []
                    for p, k in enumerate(keys):
                        lkeys.append(k)
                        if p % 2:
                            lkeys.append(500 + p)            # a key the right table does not hold
                    if not keys:
                        lkeys = [500 + p for p in range(n)]
                    kinds = LARGE_KINDS[idx % len(LARGE_KINDS)]
                    if len(kinds) == 2:
                        lk = [[k, k % 2] for k in lkeys]
                        rk = [[k, k % 2] for k in rkeys]
                    else:
                        lk, rk = [[k] for k in lkeys], [[k] for k in rkeys]
                    case = {'block': f'large-{variant}', 'matched': mlabel, 'order': order, 'kinds': kinds, 'lk': lk, 'rk': rk}
                    case.update(_cfg(idx))
                    if case['mode'] == 'ext' and (case['pl'] == 0 or case['pr'] == 0):
                        case['mode'] = 'col'
                    yield case


def family_tag(case):
    """Failure-class suffix of a join case (hc_tag plus the round-4 families)."""
    b = case.get('block', '')
    if b.startswith('advtext'):
        return ':adversarial-key-texts'
    if b.startswith('large-'):
        return ':larger-tables'
    return hc_tag(case)


def big_join_descr(case, op, expect_src="expect='many_to_many'"):
    """join_descr for the families whose key lists are long: the parameters instead of the lists."""
    b = case.get('block', '')
    if b.startswith('advtext'):
        texts = sorted({ADV_TEXTS[p] for r in case['lk'] + case['rk'] for p in r if p is not None}, key=ADV_TEXTS.index)
        return (f"{op}({expect_src}) on {len(case['kinds'])} str key columns, rows = all key tuples over the components {texts!r} "
                f"(layout {case['layout']}: {len(case['lk'])} left rows, {len(case['rk'])} right rows) mode={case['mode']} names={case['names']} "
                f"payload={case['pl']}/{case['pr']}")
    if b.startswith('large-'):
        return (f"{op}({expect_src}) kinds={case['kinds']} left keys={[r[0] for r in case['lk']]} right keys={[r[0] for r in case['rk']]} "
                f"({b}, left holds the keys of the right rows '{case['matched']}', {case['order']}) mode={case['mode']} names={case['names']} "
                f"payload={case['pl']}/{case['pr']}")
    return join_descr(case, op, expect_src)


def explain_row_difference(fails, n_before, setup, got, want):
    """Long tables: add the first offending row to the message of the row failures appended since n_before."""
    if got is None or len(fails) == n_before:
        return
    have, need = Counter(map(rkey, got)), Counter(map(rkey, want))
    extra = next((r for r in got if have[rkey(r)] > need[rkey(r)]), None)
    missing = next((r for r in want if need[rkey(r)] > have[rkey(r)]), None)
    if extra is None and missing is None:
        pos = next((i for i, (g, w) in enumerate(zip(got, want)) if not same(tuple(g), tuple(w))), None)
        note = f'same rows, order differs from output row {pos}: got {got[pos]!r}, definition has {want[pos]!r}' if pos is not None else ''
    else:
        note = (f'row not in the definition: {extra!r}' if extra is not None else '') + \
               (f' row of the definition not returned: {missing!r}' if missing is not None else '')
    for f in fails[n_before:]:
        if ':row-' in f['key']:
            f['what'] += ' -- ' + note.strip()


# ---- the same join again after a write -----------------------------------------------------------
# Every call answers for the contents the tables have AT THAT MOMENT.  Histories: call, rewrite ONE key cell
# in place (through a live column view or through table cell assignment) to a DIFFERENT value, call again,
# write the old value back, call a third time.  The value pairs include ints that differ but have equal
# Python hashes (-1 / -2, 0 / 2**61-1): anything derived from hashes of the key columns cannot tell the
# two states apart.  Also: swap the names of the key column and a second candidate column through live views
# between two calls that give the key BY NAME.
REJOIN_PAIRS = [('neg', -1, -2, 7), ('mersenne', 0, MERSENNE61, 5), ('plain', 1, 2, 3)]
REJOIN_VIAS = ['attr-view', 'item-view', 'cols-view', 'cell-by-name', 'cell-by-position']
RENAME_HOWS = ['item-view', 'attr-view', 'cols-view']


def rejoin_cases(tier, joins):
    q = tier == 'quick'
    idx = 0
    for label, a, b, c in REJOIN_PAIRS:
        pool = [a, b, c]
        fixed = [[a, c, b, a], [b, a]]
        varying = [list(s) for n in range(1, 4) for s in itertools.product(pool, repeat=n)]
        for side in ('R', 'L'):
            for other in (fixed if not q else fixed[:1]):
                for seq in varying:
                    if q and len(seq) == 3 and (side == 'L' or label == 'plain'):
                        continue
                    for row in range(len(seq)):
                        for new in pool:
                            if new == seq[row]:
                                continue
                            for kind in joins:
                                idx += 1
                                lk, rk = (other, seq) if side == 'R' else (seq, other)
                                yield {'op': 'rejoin', 'join': kind, 'pair': label, 'side': side, 'lk': lk, 'rk': rk, 'row': row, 'new': new,
                                       'via': REJOIN_VIAS[idx % len(REJOIN_VIAS)], 'spec': 'name' if (idx // 5) % 3 else 'col',
                                       'nk': 2 if (idx // 7) % 3 == 0 else 1}
    # ---- key column renamed (names swapped with a second candidate column) through live views
    pool = [1, 2, 3]
    nxt = {1: 2, 2: 3, 3: 1}
    for seq in [list(s) for n in range(1, 4) for s in itertools.product(pool, repeat=n)]:
        for side in ('R', 'L'):
            for how in RENAME_HOWS:
                for kind in joins:
                    idx += 1
                    if q and idx % 2:
                        continue
                    other = [1, 3, 2, 1]
                    lk, rk = (other, seq) if side == 'R' else (seq, other)
                    yield {'op': 'rejoin', 'join': kind, 'pair': 'rename', 'side': side, 'lk': lk, 'rk': rk,
                           'alt': [nxt[k] for k in seq], 'how': how}


def defn_join(kind, lrows, rrows, lkeys, rkeys):
    """inner_join / join / full_join by the nested-loop definitions of C09 / C10."""
    nl = len(lrows[0]) if lrows else None
    out, matched = [], set()
    for i, l in enumerate(lrows):
        hit = False
        for j, r in enumerate(rrows):
            if lkeys[i] == rkeys[j]:
                out.append(l + r)
                matched.add(j)
                hit = True
        if not hit and kind != 'inner_join':
            out.append(l + (None,) * len(rrows[0]))
    if kind == 'full_join':
        for j, r in enumerate(rrows):
            if j not in matched:
                out.append((None,) * nl + r)
    return out


class RejoinState:
    """Plain-list model of the two tables of a 'rejoin' history, and the real tables built from it."""

    def __init__(self, case):
        self.nk = case.get('nk', 1)
        self.lcols = {'k': list(case['lk'])}
        self.rcols = {'q': [f'R{i}' for i in range(len(case['rk']))], 'j': list(case['rk'])}
        if 'alt' in case:
            side = self.lcols if case['side'] == 'L' else self.rcols
            side['alt'] = list(case['alt'])
        if self.nk == 2:
            self.lcols['c'] = ['u'] * len(case['lk'])
            self.rcols['d'] = ['u'] * len(case['rk'])
        self.lcols['p'] = [f'L{i}' for i in range(len(case['lk']))]
        self.lkey, self.rkey = 'k', 'j'

    def build(self):
        return (Table([Vector(list(v), name=n) for n, v in self.lcols.items()]),
                Table([Vector(list(v), name=n) for n, v in self.rcols.items()]))

    def rows(self, cols):
        n = len(next(iter(cols.values())))
        return [tuple(v[i] for v in cols.values()) for i in range(n)]

    def keys(self, cols, first, second):
        return [(cols[first][i],) + ((cols[second][i],) if self.nk == 2 else ()) for i in range(len(cols[first]))]

    def want(self, kind):
        return defn_join(kind, self.rows(self.lcols), self.rows(self.rcols),
                         self.keys(self.lcols, self.lkey, 'c'), self.keys(self.rcols, self.rkey, 'd'))

    def names(self):
        return list(self.lcols) + list(self.rcols)

    def holds(self, L, R):
        try:
            return (rows_of(L) == self.rows(self.lcols) and rows_of(R) == self.rows(self.rcols)
                    and list(L.column_names()) == list(self.lcols) and list(R.column_names()) == list(self.rcols))
        except Exception:
            return False

    def call(self, kind, L, R, spec):
        if spec == 'name':
            lon, ron = [self.lkey] + (['c'] if self.nk == 2 else []), [self.rkey] + (['d'] if self.nk == 2 else [])
        else:
            ln, rn = list(self.lcols), list(self.rcols)
            lon = [L.cols()[ln.index(self.lkey)]] + ([L.cols()[ln.index('c')]] if self.nk == 2 else [])
            ron = [R.cols()[rn.index(self.rkey)]] + ([R.cols()[rn.index('d')]] if self.nk == 2 else [])
        if self.nk == 1:
            lon, ron = lon[0], ron[0]
        return getattr(L, kind)(R, lon, ron, expect='many_to_many')

    def verdict(self, kind, L, R, spec):
        """None when the call gives the definition's table, else a class name; plus what was seen."""
        want = self.want(kind)
        try:
            res = self.call(kind, L, R, spec)
            got = rows_of(res)
        except Exception as e:
            return f'raises:{type(e).__name__}', repr(e)
        cls = classify_rows(got, want)
        if cls is None and (want or list(res.column_names())) and list(res.column_names()) != self.names():
            return 'column-names', list(res.column_names())
        return cls, got


def eval_rejoin(pid, case):
    """Runs one history.  A call is reported only when it differs from the definition on the CURRENT contents
    although the same call on freshly built tables with these contents gives the definition's result - i.e. the
    outcome depends on what was called before the write (single calls are the subject of the other blocks)."""
    kind, side = case['join'], case['side']
    rename = case['pair'] == 'rename'
    try:
        st = RejoinState(case)
        L, R = st.build()
    except Exception as e:
        return [Fail(f'{pid}:setup:raises:{type(e).__name__}', f'rejoin {case}: building the tables raised {e!r}', None, repr(e))]
    spec = 'name' if rename else case['spec']
    T = R if side == 'R' else L
    cols = st.rcols if side == 'R' else st.lcols
    key = st.rkey if side == 'R' else st.lkey
    tname = 'right' if side == 'R' else 'left'
    cls, _ = st.verdict(kind, L, R, spec)
    if cls:
        return []
    steps = []
    if rename:
        names = list(cols)
        ia, ib = names.index(key), names.index('alt')
        how = case['how']

        def handle(nm, i):
            return T[nm] if how == 'item-view' else getattr(T, nm) if how == 'attr-view' else T.cols()[i]

        def write():
            va, vb = handle(key, ia), handle('alt', ib)
            va.name = 'tmp_name'
            vb.name = key
            va.name = 'alt'
            new = {}
            for nm, v in cols.items():
                new['alt' if nm == key else key if nm == 'alt' else nm] = v
            cols.clear()
            cols.update(new)
        steps.append((f"the {tname} table's columns {key!r} and 'alt' swap their names through live views ({how})", write))
        family = 'key-column-renamed-through-view'
    else:
        i, new, via = case['row'], case['new'], case['via']
        old = cols[key][i]

        def writer(value):
            def write():
                pos = list(cols).index(key)
                if via == 'attr-view':
                    getattr(T, key)[i] = value
                elif via == 'item-view':
                    T[key][i] = value
                elif via == 'cols-view':
                    T.cols()[pos][i] = value
                elif via == 'cell-by-name':
                    T[i, key] = value
                else:
                    T[i, pos] = value
                cols[key][i] = value
            return write
        steps.append((f'{tname} key cell [{i}] rewritten {old!r} -> {new!r} ({via})', writer(new)))
        steps.append((f'{tname} key cell [{i}] written back {new!r} -> {old!r} ({via})', writer(old)))
        family = f'{tname}-key-cell-rewritten' + ('-to-a-hash-colliding-value' if case['pair'] != 'plain' and {old, new} == set(REJOIN_PAIRS[[p[0] for p in REJOIN_PAIRS].index(case['pair'])][1:3]) else '')
    history = f"{kind}(left keys {case['lk']}, right keys {case['rk']}, {st.nk} key column(s), keys by {spec}) called"
    for what, write in steps:
        try:
            write()
        except Exception:
            return []                 # the write itself is C08's business
        if not st.holds(L, R):
            return []                 # the write did not take as modelled: not this property's business
        history += f'; then {what}; called again'
        cls, seen = st.verdict(kind, L, R, spec)
        if cls:
            try:
                fresh_cls, _ = st.verdict(kind, *st.build(), spec)
            except Exception:
                fresh_cls = 'setup'
            if fresh_cls is None:
                return [Fail(f'{pid}:{kind}-repeated:{family}:stale-{cls}',
                             f'{history}: the last result does not follow the definition on the current contents (left rows '
                             f'{st.rows(st.lcols)}, right rows {st.rows(st.rcols)}); the same call on freshly built tables does',
                             st.want(kind), seen, f'{pid}:{kind}:post')]
            return []
    return []


def rejoin_signature(case):
    return ('rejoin', case['join'], case['pair'], case['side'], len(case['lk']), len(case['rk']), case.get('via'), case.get('how'),
            case.get('spec'), case.get('nk'), case.get('row'))


def round4_bound(tier, heavy, joins):
    return {'adversarial_text_families(label, key columns, components)': [[f[0], f[1], [repr(t) for t in f[2]]] for f in adv_families(tier, heavy)],
            'larger_tables': {'right_rows': LARGE_SIZES, 'right_keys': LARGE_RIGHT, 'matched_right_rows': [m[0] for m in large_matched(9)],
                              'left_order': ['asc', 'desc-twice'], 'kinds': LARGE_KINDS},
            'repeated_calls': {'joins': joins, 'value_pairs(label, a, b, third value)': REJOIN_PAIRS, 'write_via': REJOIN_VIAS,
                               'rename_via': RENAME_HOWS, 'histories': sum(1 for _ in rejoin_cases(tier, joins))}}

"""Bounded stand-in harness (runs under /venv/bin/python against /repo's working tree).

A stand-in enumerates a small scope exhaustively, evaluates the property's spec functions
natively on the real code, and reports failing cases with a stable key.  It is labelled
*bounded* in the evidence and never counted as proved.
"""
import argparse
import json
import os
import sys
import time
import warnings
from datetime import date, datetime, timedelta
from enum import IntEnum

warnings.simplefilter('ignore')

HERE = os.path.dirname(os.path.abspath(__file__))
ROOT = os.path.dirname(HERE)
if ROOT not in sys.path:
    sys.path.insert(0, ROOT)

import serif                                   # noqa: E402
from serif import Vector, Table, DataType      # noqa: E402
from serif.alias_tracker import AliasError     # noqa: E402


class Color(IntEnum):
    RED = 1


class Opaque:
    def __init__(self, n=0):
        self.n = n

    def __repr__(self):
        return f'Opaque({self.n})'

    def __eq__(self, o):
        return isinstance(o, Opaque) and o.n == self.n

    def __hash__(self):
        return hash(('Opaque', self.n))


NS = {'date': date, 'datetime': datetime, 'timedelta': timedelta, 'Color': Color, 'Opaque': Opaque,
      'Vector': Vector, 'Table': Table, 'DataType': DataType, 'nan': float('nan'), 'inf': float('inf'),
      'slice': slice, 'None': None}


def ev(src):
    """Evaluate a case literal."""
    return eval(src, dict(NS))


def lit(x):
    """Python-literal source of a pool value."""
    if isinstance(x, float) and x != x:
        return 'nan'
    if isinstance(x, float) and x in (float('inf'), float('-inf')):
        return 'inf' if x > 0 else '-inf'
    if isinstance(x, datetime):
        return f'datetime({x.year},{x.month},{x.day},{x.hour},{x.minute})'
    if isinstance(x, date):
        return f'date({x.year},{x.month},{x.day})'
    if isinstance(x, Color):
        return 'Color.RED'
    if isinstance(x, (list, tuple)):
        inner = ', '.join(lit(e) for e in x)
        if isinstance(x, tuple):
            return '(' + inner + (',' if len(x) == 1 else '') + ')'
        return '[' + inner + ']'
    if isinstance(x, dict):
        return '{' + ', '.join(f'{lit(k)}: {lit(v)}' for k, v in x.items()) + '}'
    if isinstance(x, slice):
        return f'slice({x.start},{x.stop},{x.step})'
    return repr(x)


NUM_LADDER = [bool, int, float, complex]


def belongs(t, k):
    if t is k or k is object:
        return True
    # an instance of a subclass is an instance of the kind (IntEnum member in an int column,
    # IsoCalendarDate in a tuple column); subclass placement on the ladders is C04's business
    if isinstance(t, type) and isinstance(k, type) and issubclass(t, k) and not (t is bool) and not (t is datetime and k is date):
        return True
    if isinstance(t, type) and t not in NUM_LADDER:
        # rung of a subclass instance = its builtin base (bool cannot be subclassed)
        for base in (int, float, complex):
            if issubclass(t, base):
                t = base
                break
    if t in NUM_LADDER and k in NUM_LADDER:
        return NUM_LADDER.index(t) <= NUM_LADDER.index(k)
    if t is date and k is datetime:
        return True
    return False


def truthful(v):
    """C03 invariant on a vector (tables: on every column).  Returns None or a message."""
    if isinstance(v, Table):
        for c in v.cols():
            m = truthful(c)
            if m:
                return m
        return None
    if not isinstance(v, Vector):
        return None
    try:
        vals = list(v._underlying)
    except Exception:
        return None
    dt = v.schema()
    if dt is None:
        if len(vals) and not all(isinstance(x, Vector) for x in vals):
            return f'dtype None on non-empty vector {vals!r}'
        return None
    for x in vals:
        if x is None:
            if not dt.nullable:
                return f'None inside non-nullable <{dt.kind.__name__}>: {vals!r}'
        elif not belongs(type(x), dt.kind):
            return f'{type(x).__name__} value {x!r} inside <{dt.kind.__name__}>: {vals!r}'
    return None


def view(x):
    """Abstract view of a vector / table: contents, names, dtypes (for snapshots)."""
    if isinstance(x, Table):
        return ('T', tuple(view(c) for c in x.cols()), len(x))
    if isinstance(x, Vector):
        dt = x.schema()
        return ('V', tuple(repr(e) for e in x._underlying), x._name,
                None if dt is None else (dt.kind.__name__, dt.nullable))
    return ('S', repr(x))


def same(a, b):
    """Equality that treats nan == nan and distinguishes types (1 vs 1.0 vs True)."""
    if type(a) is not type(b):
        return False
    if isinstance(a, float):
        return (a != a and b != b) or a == b
    if isinstance(a, (list, tuple)):
        return len(a) == len(b) and all(same(x, y) for x, y in zip(a, b))
    return a == b


class Fail(dict):
    def __init__(self, key, what, expected=None, observed=None, obligation=None):
        super().__init__(key=key, what=what, expected=repr(expected)[:400], observed=repr(observed)[:400],
                         obligation=obligation)


def main(pid, cases, evaluate, rule, bound, nontrivial=None, exhaustive=True):
    ap = argparse.ArgumentParser()
    ap.add_argument('--tier', default='quick')
    ap.add_argument('--seed', type=int, default=0)
    ap.add_argument('--replay')
    a = ap.parse_args()
    if a.replay:
        with open(a.replay) as fh:
            payload = json.load(fh)
        case = payload['case']
        fails = evaluate(case)
        if fails:
            for f in fails:
                print(f'REPLAY-FAILS property={pid} key={f["key"]}: {f["what"]}\n  expected={f["expected"]}\n  observed={f["observed"]}')
            sys.exit(1)
        print(f'REPLAY-PASSES property={pid} case={case}')
        sys.exit(0)
    t0 = time.time()
    n = 0
    distinct = set()
    failures = {}
    samples = []
    fail_counts = {}
    all_cases = cases(a.tier, a.seed)
    for case in all_cases:
        n += 1
        if len(samples) < 3 or (a.seed and n % (97 + a.seed % 13) == 0 and len(samples) < 6):
            samples.append(case)
        try:
            fails = evaluate(case)
        except Exception as e:   # a crash of the harness itself on a case is a checker defect
            import traceback
            traceback.print_exc()
            print(f'harness crashed on case {case!r}: {e}', file=sys.stderr)
            sys.exit(3)
        nt = nontrivial(case) if nontrivial else json.dumps(case, sort_keys=True, default=str)
        if nt is not None:
            distinct.add(nt)
        for f in fails or []:
            fail_counts[f['key']] = fail_counts.get(f['key'], 0) + 1
            if f['key'] not in failures:
                f['case'] = case
                failures[f['key']] = f
    out = {
        'property': pid, 'evaluations': n, 'distinct_nontrivial': len(distinct), 'rule': rule,
        'bound': bound(a.tier) if callable(bound) else bound, 'exhaustive': exhaustive,
        'samples': samples, 'failures': list(failures.values()), 'failure_counts': fail_counts,
        'wall_s': round(time.time() - t0, 2),
    }
    print('RESULT ' + json.dumps(out, default=str))

"""C17 bounded stand-in: every column is reachable by exactly one advertised, valid accessor name.

Scope
-----
static : every column-name list of width <= 3 (quick) / <= 4 (thorough) over an 18-name
         pathological alphabet (case twins, blanks, runs of punctuation, generated-accessor
         look-alikes a__1 / col1_, method names sum / T / cols / 'column names', keyword, digit
         prefix, '_', '', None, non-ASCII, non-str 0).
hist   : every rename / replace / append history of length <= 2 on every base table of width
         <= 2 over a 3-name (thorough: 5) sub-alphabet, new names from a 3-name (thorough: 5)
         sub-alphabet; operations: t.rename_column, rename through a live column view
         (c = t['a']; c.name = 'z'), t.<accessor> = values, t >> named vector.

wide   : tables of 11 / 12 / 13 columns (more than repr displays) with a same-accessor group (plain repeat, 'Unit Price' /
         'unit_price' / 'UNIT  PRICE' twins, unnamed column + 'colN_' look-alikes, method-name twins) at every pair of positions
         where one member is in the elided middle, and every triple whose FIRST member is elided; all-unnamed, all-same
         and alternating-twin tables.  The dot row must show, for each displayed column, the accessor of its own position.
rc-1st : rename_column applied to each column of tables with several same-accessor columns (['unit price', 'unit price',
         'qty'], twins, triples, method names, digit prefixes) to 5 new names (fresh, None, same accessor again, another
         column's name), alone and followed by one more rename / append / view rename / replacement.
byname : every name list of width 2 (9-name alphabet) and 3 (8 names; thorough: 9, and width 4 over 6) over
         {'Region', 'region', 'Unit Price', 'unit_price', 'a', 'a__1', 'col1_', None, 'x'}: for every stored name,
         t[name], t[(name, other)], t[rows, name], t[rows, (name,)], sort_by(name), join / inner_join / full_join with the
         name as left or right key, aggregate / window over=name must all use the FIRST column whose stored name equals
         the key (columns carry distinct values and distinct sort orders, so the column used is identifiable).
         (t[<int row>, name] goes through Row attribute lookup, i.e. the accessor, like item assignment: not failed.)
digit  : names whose first alphanumeric character is a DIGIT that follows punctuation / space / underscores ('$100', '#1 seed',
         '(2023) revenue', '_7up', ' 9lives', '__3', '-5', '7') together with their would-be accessors as stored names ('c100',
         '100'), 'a' and None: every name list of width <= 2 over the 12 names and of width 3 over 7 of them (thorough: all 12), and
         every rename_column / view-rename / replacement / append history of length 1 (thorough: 2) that introduces such a name.
         The accessor is the documented one ('c100', 'c1_seed', 'c2023_revenue', 'c7up', 'c9lives'): a valid identifier that starts
         with a lower-case letter (checked on every case of every block), resolving through every channel.
unders : stored names built from SEGMENTS joined by one, two and three underscores, with numeric and non-numeric tails:
         'a<sep>t' and 'a<sep>m<sep>t' for every sep in {_, __, ___}, m in {b, 1}, t in {b/c, 0, 1, 2} ('a__b', 'a__b__0', 'a___2',
         'a__1__2', 'a__b__c', 'a_b___1', ...): every such name alone; every name list of width 2 over the two-segment names plus
         a 12-name core, and of width 3 over the core (thorough: over all 20), repeats included; and for every name P<sep>d with a
         numeric tail d, the width-3 lists holding P twice and the name once in every arrangement (so that a repeat of P and the
         stored name compete for the generated accessor P__d).  Checked like every static list: each advertised accessor resolves
         (getattr / row attribute / item-assignment key) to exactly one column, every column is reachable, dot row, t[stored].

Oracle (from the statement only): a plain list of stored names is the model; the advertised
accessor set is whatever dir(t) adds over dir(Table()); it has to be a set of distinct valid
identifiers, none of them a public Vector/Table attribute, exactly one per column, each resolving
through getattr / row attribute / `t[0, name] = x` to the column at its own position; accessor i
must follow the documented sanitisation of stored name i; t[stored] is the first column carrying
that stored name; column_names() is the model list.

Every observation channel is taken on a *fresh* replica of the scenario (the advertised names are
read from a twin), so that one channel's side effects (dir() / getattr rebuild the map) cannot
mask or cause another channel's failure.  A failure seen after a history that is also seen on a
table built directly from the final stored names is reported under the static key; otherwise the
key carries `:after-<last op>`.
"""
import itertools
import re

from harness import *  # noqa

ALPHABET = ['a', 'A', 'a b', 'a_b', 'a__1', 'a__2', 'sum', 'T', 'col1_', '1a', '_', '', None, 'é', 'class',
            'cols', 'column names', 0]
HIST_BASE = {'quick': ['a', 'sum', None],
             'thorough': ['a', 'A b', 'a__1', 'sum', None]}
HIST_NEW = {'quick': ['z', 'a', None],
            'thorough': ['z', 'a', 'sum', 'a__1', None]}

EMPTY_DIR = set(dir(Table()))
PUBLIC = {n for n in set(dir(Vector)) | set(dir(Table)) if not n.startswith('_')}
PUBLIC_LOWER = {n.lower() for n in PUBLIC}


# ---------------------------------------------------------------------------------------------
# oracle helpers (statement: lower-case; runs of other characters -> one '_'; outer '_' stripped;
# leading digit prefixed with 'c'; unnamed -> colN_)
# ---------------------------------------------------------------------------------------------
def san_base(name):
    if name is None:
        return None
    s = str(name).lower()
    s = re.sub(r'[^a-z0-9_]+', '_', s)
    s = s.strip('_')
    if s == '':
        return None
    if s[0].isdigit():
        s = 'c' + s
    return s


def ascii_only(name):
    return name is None or all(ord(ch) < 128 for ch in str(name))


def looks_generated(base):
    return bool(re.match(r'^.+__\d+$', base)) or bool(re.match(r'^col\d+_?$', base))


def col_values(j):
    return [10 * j + 1, 10 * j + 2]


# ---------------------------------------------------------------------------------------------
# scenario construction: returns (table, model_names) or raises ScenarioFail
# ---------------------------------------------------------------------------------------------
class ScenarioFail(Exception):
    def __init__(self, fail):
        self.fail = fail


def build(names):
    return Table([Vector(col_values(j), name=n) for j, n in enumerate(names)])


_acc_memo = {}


def accessors_of(names, hist):
    """Accessor name per position, read from a twin (dir + getattr identity); None where unknown."""
    k = (lit(names), lit(hist))
    if k in _acc_memo:
        return _acc_memo[k]
    try:
        t, model = scenario(names, hist)
        adv = sorted(set(dir(t)) - EMPTY_DIR, key=str)
        out = [None] * len(t.cols())
        for n in adv:
            try:
                c = getattr(t, n)
            except Exception:
                continue
            for i, x in enumerate(t.cols()):
                if x is c and out[i] is None:
                    out[i] = n
                    break
    except ScenarioFail:
        out = None
    if len(_acc_memo) > 50000:
        _acc_memo.clear()
    _acc_memo[k] = out
    return out


def scenario(names, hist):
    names = list(names)
    t = build(names)
    model = list(names)
    for step, op in enumerate(hist):
        kind = op[0]
        prior = OPNAME[hist[step - 1][0]] if step else 'construction'
        try:
            if kind == 'rc':
                i, new = op[1], op[2]
                old = model[i]
                first = next(j for j, m in enumerate(model) if type(m) is type(old) and m == old)
                t.rename_column(old, new)
                model[first] = new
            elif kind == 'vw':
                i, new = op[1], op[2]
                old = model[i]
                if isinstance(old, str) and model.index(old) == i:
                    c = t[old]
                    if c is not t.cols()[i]:
                        c = t.cols()[i]
                else:
                    c = t.cols()[i]
                c.name = new
                model[i] = new
            elif kind == 'rp':
                i = op[1]
                acc = accessors_of(names, hist[:step])
                if not acc or acc[i] is None:
                    raise ScenarioFail(None)          # accessor unknown: reported by the prefix case
                setattr(t, acc[i], [100 * (step + 1) + 1, 100 * (step + 1) + 2])
            elif kind == 'ap':
                new = op[1]
                t = t >> Vector([200 * (step + 1) + 1, 200 * (step + 1) + 2], name=new)
                model.append(new)
        except ScenarioFail:
            raise
        except Exception as e:
            raise ScenarioFail(Fail(f'C17:{OPNAME[kind]}:raises:after-{prior}',
                                    f'history {lit(hist)} on names {lit(names)}: step {step} ({kind}) raised '
                                    f'{type(e).__name__}: {e}', 'accepted', f'{type(e).__name__}: {e}'))
    return t, model


OPNAME = {'rc': 'rename_column', 'vw': 'view-rename', 'rp': 'setattr-replace', 'ap': 'rshift-append'}


# ---------------------------------------------------------------------------------------------
# the checks; `make()` returns a fresh (table, model) replica every time it is called
# ---------------------------------------------------------------------------------------------
def check(make, label):
    fails = []

    def F(key, what, exp=None, obs=None):
        fails.append(Fail(key, f'{label}: {what}', exp, obs))

    t, model = make()
    ncols = len(model)

    m = truthful(t)
    if m:
        F('C03:Table:truthful', m)

    # -- stored names -------------------------------------------------------------------------
    try:
        got = t.column_names()
        if not same(list(got), list(model)):
            F('C17:column_names:altered', 'column_names() differs from the stored names', model, got)
    except Exception as e:
        F('C17:column_names:raises', f'{type(e).__name__}: {e}')
    if len(t.cols()) != ncols:
        F('C17:cols:count', 'number of columns differs from the model', ncols, len(t.cols()))
        return fails

    # -- advertised names (twin 1) ------------------------------------------------------------
    try:
        adv = sorted(set(dir(t)) - EMPTY_DIR, key=str)
    except Exception as e:
        F('C17:dir:raises', f'dir(t) raised {type(e).__name__}: {e}')
        return fails
    for n in adv:
        if not isinstance(n, str) or not n.isidentifier():
            F('C17:dir:not-identifier', f'advertised accessor {n!r} is not a valid identifier', 'identifier', n)
        elif n in PUBLIC:
            F('C17:dir:shadows-public', f'advertised accessor {n!r} shadows a public Vector/Table attribute', None, n)
        elif not ('a' <= n[0] <= 'z'):
            # lower-case; outer underscores stripped; leading digit prefixed with c; unnamed -> colN_: the first character is a letter
            F('C17:dir:not-letter-initial', f'advertised accessor {n!r} does not start with a lower-case letter (outer underscores are '
              f'stripped and a leading digit is prefixed with c)', 'a letter first', n)
    if len(adv) != ncols:
        F('C17:dir:count-mismatch', f'{len(adv)} advertised accessors {adv} for {ncols} columns '
          f'(not distinct / not one per column)', ncols, adv)

    # -- attribute resolution on a fresh replica (getattr is the first thing the table sees) ----
    t2, _ = make()
    pos = {}
    for n in adv:
        if not isinstance(n, str):
            continue
        try:
            c = getattr(t2, n)
        except Exception as e:
            sub = ':col-prefix' if (n.startswith('col') and n.endswith('_') and not n[3:-1].isdigit()) else ''
            F('C17:getattr:advertised-unresolved' + sub,
              f'dir(t) advertises {n!r} but getattr raises {type(e).__name__}: {e}', 'a column', f'{type(e).__name__}')
            continue
        idx = [i for i, x in enumerate(t2.cols()) if x is c]
        if not idx:
            F('C17:getattr:not-a-column', f'getattr(t, {n!r}) is not one of t.cols()', 'a column', type(c).__name__)
            continue
        pos[n] = idx[0]
    if len(set(pos.values())) != len(pos):
        F('C17:getattr:two-names-one-column', f'two advertised names resolve to the same column: {pos}', None, pos)
    by_pos = {i: n for n, i in pos.items()}

    # accessors that did not resolve: place them by the oracle when exactly one free column fits
    free = [i for i in range(ncols) if i not in by_pos]
    for n in adv:
        if isinstance(n, str) and n not in pos:
            fit = [i for i in free if fits(model[i], i, n)]
            if len(fit) == 1:
                pos[n] = fit[0]
                by_pos[fit[0]] = n
                free.remove(fit[0])
    for i in range(ncols):
        if i not in by_pos:
            F('C17:dir:column-without-accessor', f'column {i} (stored name {model[i]!r}) has no advertised accessor '
              f'that resolves to it; advertised {adv}', 'one accessor per column', adv)

    # -- sanitisation rule --------------------------------------------------------------------
    bases = [san_base(s) for s in model]
    for i in range(ncols):
        n = by_pos.get(i)
        if n is None or not ascii_only(model[i]):
            continue
        b = bases[i]
        if b is None:
            if n != f'col{i}_':
                F('C17:sanitise:unnamed-not-colN_', f'column {i} stored {model[i]!r} advertised as {n!r}', f'col{i}_', n)
        else:
            plain = (bases.count(b) == 1 and b not in PUBLIC_LOWER and not looks_generated(b)
                     and not any(bb is not None and bb != b and bb.startswith(b) for bb in bases))
            if plain and n != b:
                F('C17:sanitise:rule', f'column {i} stored {model[i]!r} advertised as {n!r}', b, n)
            elif not n.startswith(b):
                F('C17:sanitise:rule', f'column {i} stored {model[i]!r} advertised as {n!r} (does not extend {b!r})', b, n)

    # -- dir() followed by getattr (tab completion, then use) -----------------------------------
    t3, _ = make()
    try:
        dir(t3)
    except Exception:
        pass
    for n, i in sorted(pos.items()):
        try:
            c = getattr(t3, n)
            if c is not t3.cols()[i]:
                F('C17:getattr-after-dir:wrong-column', f'after dir(t), t.{n} is not column {i}', i,
                  [j for j, x in enumerate(t3.cols()) if x is c])
        except Exception as e:
            if not any(f['key'].startswith('C17:getattr:advertised-unresolved') and repr(n) in f['what'] for f in fails):
                F('C17:getattr-after-dir:unresolved', f'after dir(t), t.{n} raises {type(e).__name__}: {e}', 'column', type(e).__name__)

    # -- row attribute access + string indexing on one fresh replica (both are reads) ----------
    t4, _ = make()
    for n, i in sorted(pos.items()):
        want = t4.cols()[i][0]
        try:
            got = getattr(t4[0], n)
            if not same(got, want):
                F('C17:row-attr:wrong-column', f't[0].{n} gives {got!r}, column {i} holds {want!r}', want, got)
        except Exception as e:
            F('C17:row-attr:unresolved', f't[0].{n} raises {type(e).__name__}: {e}', want, type(e).__name__)
    seen = set()
    for i, s in enumerate(model):
        if not isinstance(s, str) or s in seen:
            continue
        seen.add(s)
        try:
            c = t4[s]
            idx = [j for j, x in enumerate(t4.cols()) if x is c]
            if idx != [i]:
                F('C17:getitem-name:not-first-occurrence', f't[{s!r}] resolves to column {idx}, first occurrence is {i}', i, idx)
        except Exception as e:
            F('C17:getitem-name:raises', f't[{s!r}] raises {type(e).__name__}: {e}', i, type(e).__name__)

    # -- accessor as column key in item assignment on a fresh replica ---------------------------
    t5, _ = make()
    exp = [list(c) for c in t5.cols()]
    for k, (n, i) in enumerate(sorted(pos.items())):
        val = 900 + k
        try:
            t5[0, n] = val
        except AliasError as e:
            # is the write itself refused, whatever key addresses the column?  then it is C15's business
            # (spurious refusal; allocation dependent on this tree), not a naming failure
            try:
                t5[0, i] = val
                F('C17:setitem-key:unresolved', f't[0, {n!r}] = {val} raises AliasError but t[0, {i}] = {val} is accepted', 'accepted', 'AliasError')
            except AliasError:
                F('C15:Table.setitem:spurious-alias-error', f't[0, {i}] = {val} on a table nobody else shares raises AliasError: {e}',
                  'accepted', 'AliasError')
            except Exception:
                pass
            break
        except Exception as e:
            F('C17:setitem-key:unresolved', f't[0, {n!r}] = {val} raises {type(e).__name__}: {e}', 'accepted', type(e).__name__)
            continue
        exp2 = [list(c) for c in exp]
        exp2[i][0] = val
        after = [list(c) for c in t5.cols()]
        if after != exp2:
            F('C17:setitem-key:wrong-column', f't[0, {n!r}] = {val} turned {exp} into {after} (column {i} expected)', exp2, after)
        exp = after
    m = truthful(t5)
    if m:
        F('C03:Table.setitem:truthful', m)

    # -- dot row of repr ----------------------------------------------------------------------
    try:
        r = repr(t3)
    except Exception:
        r = None                      # totality of repr is C20's business
    if r is not None and ncols and len(by_pos) == ncols:
        lines = r.split('\n')
        header = lines[:max(0, len(lines) - (len(t3) + 2))]
        for ln in header:
            toks = ln.split()
            if toks and all(tk.startswith('.') and len(tk) > 1 for tk in toks):
                want = ['.' + by_pos[i] for i in range(ncols)]
                if '...' in toks and len(toks) <= ncols:
                    # wide table: the middle columns are elided; every DISPLAYED column (the ones before the ellipsis are the
                    # first columns, the ones after it the last columns) must carry the accessor of its own position
                    k = toks.index('...')
                    tail = len(toks) - k - 1
                    shown = list(range(k)) + list(range(ncols - tail, ncols))
                    want_w = ['.' + by_pos[i] for i in shown[:k]] + ['...'] + ['.' + by_pos[i] for i in shown[k:]]
                    if toks != want_w:
                        bad = [shown[q - (1 if q > k else 0)] for q in range(len(toks)) if q != k and toks[q] != want_w[q]]
                        hidden_first = any(bases[i] is not None and bases.index(bases[i]) not in shown for i in bad)
                        sub = ':wide:first-occurrence-elided' if hidden_first else ':wide'
                        F('C17:repr-dot-row:mismatch' + sub, f'dot row {toks} of the {ncols}-column table differs from the accessors '
                          f'{want_w} that dir()/getattr resolve to the displayed columns', want_w, toks)
                    break
                if toks != want:
                    bad = [i for i in range(min(len(toks), ncols)) if toks[i] != want[i]]
                    sub = ':non-str-name' if len(toks) == ncols and all(not isinstance(model[i], str) and model[i] is not None for i in bad) else ''
                    F('C17:repr-dot-row:mismatch' + sub, f'dot row {toks} differs from the advertised accessors {want}', want, toks)
                break
    return fails


def fits(stored, i, n):
    b = san_base(stored)
    if b is None:
        return n == f'col{i}_'
    return n.startswith(b)


# ---------------------------------------------------------------------------------------------
def ops_for(width, new_names):
    out = []
    for i in range(width):
        for nn in new_names:
            out.append(['rc', i, nn])
            out.append(['vw', i, nn])
        out.append(['rp', i])
    for nn in new_names:
        out.append(['ap', nn])
    return out


# ---------------------------------------------------------------------------------------------
# wide tables: more columns than repr displays; same-accessor groups whose first member is elided
# ---------------------------------------------------------------------------------------------
WIDE_WIDTHS = [11, 12, 13]
WIDE_GROUPS = [['a', 'a', 'a'], ['Unit Price', 'unit_price', 'UNIT  PRICE'], ['unit_price', 'Unit Price', 'unit price'],
               [None, 'col<i>_', 'col<i>'], ['sum', 'SUM', 'Sum']]


def wide_names(width, group, positions):
    """Filler names f0.. (column 0 needs sanitising, so the dot row is always printed) with group[k] at positions[k]."""
    names = ['x y' if j == 0 else f'f{j}' for j in range(width)]
    for k, p_ in enumerate(positions):
        g = group[k]
        names[p_] = g.replace('<i>', str(positions[0])) if isinstance(g, str) else g
    return names


def wide_cases(tier):
    for width in WIDE_WIDTHS:
        hidden = list(range(5, width - 5))
        for gi, group in enumerate(WIDE_GROUPS):
            # pairs: first occurrence hidden, second anywhere after it; first visible, second hidden
            for i in range(1, width):
                for j in range(i + 1, width):
                    if i in hidden or j in hidden:
                        yield {'op': 'static', 'names': lit(wide_names(width, group, [i, j]))}
            # triples whose first occurrence is hidden (quick: plain repeated name only)
            if gi == 0 or tier != 'quick':
                for i in hidden:
                    for j in range(i + 1, width):
                        for k in range(j + 1, width):
                            yield {'op': 'static', 'names': lit(wide_names(width, group, [i, j, k]))}
        # every column unnamed / every column the same name / alternating twins
        yield {'op': 'static', 'names': lit([None] * width)}
        yield {'op': 'static', 'names': lit(['x y'] + ['a'] * (width - 1))}
        yield {'op': 'static', 'names': lit(['x y'] + [['Region', 'region'][j % 2] for j in range(width - 1)])}


# ---------------------------------------------------------------------------------------------
# rename_column on the FIRST of several columns sharing an accessor, then anything else
# ---------------------------------------------------------------------------------------------
RC_BASES = [['unit price', 'unit price', 'qty'], ['Unit Price', 'unit_price', 'qty'], ['qty', 'unit price', 'unit price'],
            ['unit price', 'qty', 'unit price'], ['a', 'a', 'a'], ['unit price', 'unit price', 'unit price', 'qty'], ['A b', 'a_b'],
            ['sum', 'Sum', 'x'], ['1a', 'c1a']]
RC_NEW = ['list price', 'z', None, 'UNIT PRICE', 'qty']


def rename_first_cases(tier):
    for base in RC_BASES:
        w = len(base)
        for i in range(w):
            for new in RC_NEW:
                h1 = ['rc', i, new]
                yield {'op': 'hist', 'names': lit(base), 'hist': lit([h1])}
                seconds = [['rc', j, 'w'] for j in range(w)] + [['ap', base[0]], ['ap', 'w'], ['vw', w - 1, base[0]], ['rp', 0], ['rp', w - 1]]
                if tier != 'quick':
                    seconds += [['rc', j, nn] for j in range(w) for nn in RC_NEW] + [['vw', j, 'w'] for j in range(w)]
                for h2 in seconds:
                    yield {'op': 'hist', 'names': lit(base), 'hist': lit([h1, h2])}


# ---------------------------------------------------------------------------------------------
# t[name] and everything built on it, where the key is one column's STORED name and another column's ACCESSOR
# ---------------------------------------------------------------------------------------------
BYNAME_ALPHABET = ['Region', 'region', 'Unit Price', 'unit_price', 'a', 'a__1', 'col1_', None, 'x']
PERMS = [[2, 1, 3], [3, 1, 2], [1, 3, 2], [2, 3, 1]]          # column j holds 10*j + PERMS[j]: distinct sort orders, none sorted


def byname_table(names):
    return Table([Vector([10 * j + p_ for p_ in PERMS[j]], name=n) for j, n in enumerate(names)])


def byname_cases(tier):
    q = tier == 'quick'
    for w in (2, 3) if q else (2, 3, 4):
        alpha = BYNAME_ALPHABET if (w == 2 or (w == 3 and not q)) else (BYNAME_ALPHABET[:-1] if w == 3 else
                                                                       ['Region', 'region', 'a', 'a__1', None, 'col1_'])
        for combo in itertools.product(alpha, repeat=w):
            if any(isinstance(n, str) for n in combo):
                # quick: left join only (all three join flavours resolve their keys through the same routine)
                yield dict({'op': 'byname', 'names': lit(list(combo))}, **({'tier': 'quick'} if q else {}))


def eval_byname(case):
    names = ev(case['names'])
    label = f'names {case["names"]}'
    fails, seen = [], set()

    def F(key, what, exp=None, obs=None):
        if key not in seen:
            seen.add(key)
            fails.append(Fail(key, f'{label}: {what}', exp, obs))

    try:
        byname_table(names)
    except Exception as e:
        return [Fail('C17:Table:construct-raises', f'Table of columns named {case["names"]} raised {type(e).__name__}: {e}')]
    data = [[10 * j + p_ for p_ in PERMS[j]] for j in range(len(names))]
    first = {}
    for i, n in enumerate(names):
        if isinstance(n, str) and n not in first:
            first[n] = i
    # does any key name another column's accessor?  (only used for the nontrivial signature; every key is checked)
    quick = case.get('tier') == 'quick'
    for s_, i in first.items():
        col_i = data[i]
        # (1) plain string indexing (one table serves all the reads for this key: none of them writes)
        t = byname_table(names)
        try:
            c = t[s_]
            idx = [j for j, x in enumerate(t.cols()) if x is c]
            if idx != [i]:
                F('C17:getitem-name:not-first-occurrence', f't[{s_!r}] resolves to column {idx}, the first column whose stored name is '
                  f'{s_!r} is {i}', i, idx)
        except Exception as e:
            F('C17:getitem-name:raises', f't[{s_!r}] raises {type(e).__name__}: {e}', i, type(e).__name__)
        # (2) tuple selection, alone and paired with every other stored name (both orders)
        for s2, i2 in first.items():
            for key in ([(s_,)] if s2 == s_ else []) + [(s_, s2)]:
                try:
                    r = t[key]
                    got = [list(x) for x in r.cols()]
                    want = [data[first[k_]] for k_ in key]
                    m = truthful(r)
                    if m:
                        F('C03:Table.getitem:name-tuple:truthful', m)
                    if got != want:
                        F('C17:getitem-name-tuple:not-first-occurrence', f't[{key!r}] selects columns holding {got}; the first columns '
                          f'stored under these names hold {want}', want, got)
                    elif list(r.column_names()) != list(key):
                        F('C17:getitem-name-tuple:stored-name-altered', f't[{key!r}].column_names() = {r.column_names()!r}', list(key), r.column_names())
                except Exception as e:
                    F('C17:getitem-name-tuple:raises', f't[{key!r}] raises {type(e).__name__}: {e}', None, type(e).__name__)
        # (3) rows x name
        for rtxt, rs, pick in ((('0:2', slice(0, 2), lambda xs: xs[0:2]), ('::-1', slice(None, None, -1), lambda xs: xs[::-1])) if quick else
                               (('0:2', slice(0, 2), lambda xs: xs[0:2]), (':', slice(None), lambda xs: xs[:]),
                                ('::-1', slice(None, None, -1), lambda xs: xs[::-1]))):
            try:
                r = t[rs, s_]
                if not isinstance(r, Vector) or list(r) != pick(col_i):
                    F('C17:getitem-rows-name:not-first-occurrence', f't[{rtxt}, {s_!r}] gives {list(r) if isinstance(r, Vector) else r!r}; '
                      f'column {i} (first stored {s_!r}) holds {pick(col_i)} there', pick(col_i), list(r) if isinstance(r, Vector) else r)
            except Exception as e:
                F('C17:getitem-rows-name:raises', f't[{rtxt}, {s_!r}] raises {type(e).__name__}: {e}', None, type(e).__name__)
            try:
                r = t[rs, (s_,)]
                got = [list(x) for x in r.cols()]
                if got != [pick(col_i)]:
                    F('C17:getitem-rows-name-tuple:not-first-occurrence', f't[{rtxt}, ({s_!r},)] gives {got}', [pick(col_i)], got)
            except Exception as e:
                F('C17:getitem-rows-name-tuple:raises', f't[{rtxt}, ({s_!r},)] raises {type(e).__name__}: {e}', None, type(e).__name__)
        # (4) sort_by by name: every column has its own sort order
        order = sorted(range(3), key=lambda r_: col_i[r_])
        for rev in (False, True):
            try:
                r = t.sort_by(s_, reverse=rev)
                got = [list(x) for x in r.cols()]
                od = order[::-1] if rev else order
                want = [[d[r_] for r_ in od] for d in data]
                if got != want:
                    used = [j for j, d in enumerate(data) if got == [[dd[r_] for r_ in (sorted(range(3), key=lambda q: d[q])[::-1] if rev else
                                                                                         sorted(range(3), key=lambda q: d[q]))] for dd in data]]
                    F('C17:sort_by-name:not-first-occurrence', f't.sort_by({s_!r}, reverse={rev}) ordered the rows by column {used or "?"}; '
                      f'the first column stored as {s_!r} is {i}', want, got)
            except Exception as e:
                F('C17:sort_by-name:raises', f't.sort_by({s_!r}) raises {type(e).__name__}: {e}', None, type(e).__name__)
        # (5) join keys by name: the other table's key holds exactly column i's values, so only column i matches
        u = Table([Vector(list(col_i), name='key'), Vector([100, 200, 300], name='payload')])
        for meth in (('join',) if quick else ('join', 'inner_join', 'full_join')):
            try:
                r = getattr(t, meth)(u, left_on=s_, right_on='key', expect='one_to_one')
                pay = list(r.cols()[-1]) if len(r.cols()) == len(names) + 2 else None
                if len(r) != 3 or pay != [100, 200, 300]:
                    F('C17:join-key-name:left:not-first-occurrence', f't.{meth}(u, left_on={s_!r}, right_on="key") where u.key holds column '
                      f'{i}\'s values {col_i}: {len(r)} rows, payload {pay}', [100, 200, 300], pay)
            except Exception as e:
                F('C17:join-key-name:left:raises', f't.{meth}(u, left_on={s_!r}, ...) raises {type(e).__name__}: {e}', None, type(e).__name__)
            try:
                r = getattr(u, meth)(t, left_on='key', right_on=s_, expect='one_to_one')
                got = [list(x) for x in r.cols()[2:]]
                if len(r) != 3 or got != data:
                    F('C17:join-key-name:right:not-first-occurrence', f'u.{meth}(t, left_on="key", right_on={s_!r}) where u.key holds column '
                      f'{i}\'s values: {len(r)} rows, right columns {got}', data, got)
            except Exception as e:
                F('C17:join-key-name:right:raises', f'u.{meth}(t, right_on={s_!r}) raises {type(e).__name__}: {e}', None, type(e).__name__)
        # (6) partition key by name (aggregate / window resolve names the same way)
        for meth in ('aggregate', 'window'):
            try:
                r = getattr(t, meth)(over=s_, count_over=s_)
                got = list(r.cols()[0])
                if got != col_i:
                    F(f'C17:{meth}-over-name:not-first-occurrence', f't.{meth}(over={s_!r}) groups by values {got}; column {i} holds {col_i}',
                      col_i, got)
            except Exception as e:
                F(f'C17:{meth}-over-name:raises', f't.{meth}(over={s_!r}) raises {type(e).__name__}: {e}', None, type(e).__name__)
    return fails


# ---------------------------------------------------------------------------------------------
# names whose first alphanumeric character is a digit preceded by punctuation / space / underscore
# ---------------------------------------------------------------------------------------------
DIGIT_CORE = ['$100', '#1 seed', '(2023) revenue', '_7up', ' 9lives', 'c100', 'a']
DIGIT_ALPHABET = DIGIT_CORE + ['__3', '-5', '7', '100', None]
DIGIT_EXPECT = {'$100': 'c100', '#1 seed': 'c1_seed', '(2023) revenue': 'c2023_revenue', '_7up': 'c7up', ' 9lives': 'c9lives',
                '__3': 'c3', '-5': 'c5', '7': 'c7', '100': 'c100'}
DIGIT_BASES = [['a'], ['a', 'b'], ['c100', 'a'], ['$100', 'x'], ['_7up', ' 9lives']]
DIGIT_NEW = ['$100', '_7up', ' 9lives', '#1 seed']


def digit_cases(tier):
    q = tier == 'quick'
    for w in (1, 2):
        for combo in itertools.product(DIGIT_ALPHABET, repeat=w):
            yield {'op': 'static', 'names': lit(list(combo)), 'blk': 'digit'}
    for combo in itertools.product(DIGIT_CORE if q else DIGIT_ALPHABET, repeat=3):
        yield {'op': 'static', 'names': lit(list(combo)), 'blk': 'digit'}
    for base in DIGIT_BASES:
        w = len(base)
        for op1 in ops_for(w, DIGIT_NEW):
            yield {'op': 'hist', 'names': lit(base), 'hist': lit([op1]), 'blk': 'digit'}
            if not q:
                w2 = w + 1 if op1[0] == 'ap' else w
                for op2 in ops_for(w2, DIGIT_NEW[:2] + ['z']):
                    yield {'op': 'hist', 'names': lit(base), 'hist': lit([op1, op2]), 'blk': 'digit'}


assert all(san_base(k) == v for k, v in DIGIT_EXPECT.items())


# ---------------------------------------------------------------------------------------------
# segments joined by 1, 2 and 3 underscores, numeric and non-numeric tails
# ---------------------------------------------------------------------------------------------
US_SEPS = ['_', '__', '___']
US_TWO = [f'a{s_}{t_}' for s_ in US_SEPS for t_ in ('b', '0', '1', '2')]
US_THREE = [f'a{s1}{m_}{s2}{t_}' for s1 in US_SEPS for m_ in ('b', '1') for s2 in US_SEPS for t_ in ('c', '0', '1', '2')]
US_CORE = ['a', 'a__b', 'a__b__0', 'a__b__1', 'a__b__2', 'a___1', 'a___2', 'a__1__2', 'a__1', 'a__b__c', 'a__b___1', 'a_b__1']
US_WIDE = US_CORE + ['a___b', 'a__b_1', 'a_b', 'a__2', 'a__1__1', 'a___b__2', 'A__B__0', 'a__b__']


def underscore_cases(tier):
    seen = set()

    def once(names):
        k = lit(names)
        if k not in seen:
            seen.add(k)
            return [{'op': 'static', 'names': k, 'blk': 'unders'}]
        return []
    for n in US_TWO + US_THREE + US_WIDE:
        yield from once([n])
    two = list(dict.fromkeys(US_TWO + US_CORE))
    for combo in itertools.product(two if tier == 'quick' else list(dict.fromkeys(two + US_WIDE)), repeat=2):
        yield from once(list(combo))
    for combo in itertools.product(US_CORE if tier == 'quick' else US_WIDE, repeat=3):
        yield from once(list(combo))
    # a repeated prefix P next to the stored name P<sep><digits>: the repeat and the stored name compete for P__<d>
    for n in US_TWO + US_THREE:
        m_ = re.match(r'^(.*?[a-z0-9])(_+)(\d+)$', n)
        if not m_:
            continue
        p_ = m_.group(1)
        for arrangement in ([p_, p_, n], [p_, n, p_], [n, p_, p_]):
            yield from once(arrangement)
        if tier != 'quick':
            for arrangement in ([p_, p_, p_, n], [n, p_, p_, p_], [p_, n, n], [n, n, p_]):
                yield from once(arrangement)


def cases(tier, seed):
    yield from _cases_v1(tier, seed)
    yield from underscore_cases(tier)
    yield from digit_cases(tier)
    yield from wide_cases(tier)
    yield from rename_first_cases(tier)
    yield from byname_cases(tier)


def _cases_v1(tier, seed):
    wmax = 3 if tier == 'quick' else 4
    for w in range(0, wmax + 1):
        for combo in itertools.product(ALPHABET, repeat=w):
            yield {'op': 'static', 'names': lit(list(combo))}
    hb, hn = HIST_BASE[tier if tier in HIST_BASE else 'thorough'], HIST_NEW[tier if tier in HIST_NEW else 'thorough']
    hw = 2
    for w in range(1, hw + 1):
        for combo in itertools.product(hb, repeat=w):
            for op1 in ops_for(w, hn):
                yield {'op': 'hist', 'names': lit(list(combo)), 'hist': lit([op1])}
                w2 = w + 1 if op1[0] == 'ap' else w
                for op2 in ops_for(w2, hn):
                    yield {'op': 'hist', 'names': lit(list(combo)), 'hist': lit([op1, op2])}


def evaluate(case):
    names = ev(case['names'])
    if case['op'] == 'byname':
        return eval_byname(case)
    if case['op'] == 'static':
        try:
            build(names)
        except Exception as e:
            return [Fail('C17:Table:construct-raises', f'Table of columns named {case["names"]} raised {type(e).__name__}: {e}')]
        out = check(lambda: (build(names), list(names)), f'names {case["names"]}')
        if case.get('blk') == 'unders':
            # names whose sanitised form holds several underscore groups: own failure family
            for f in out:
                if f['key'].startswith('C17:'):
                    f['key'] += ':multi-underscore-name'
        return out
    hist = ev(case['hist'])
    try:
        _, model = scenario(names, hist)
    except ScenarioFail as sf:
        return [sf.fail] if sf.fail is not None else []
    label = f'names {case["names"]} after {case["hist"]}'
    try:
        hf = check(lambda: scenario(names, hist), label)
    except ScenarioFail as sf:
        return [sf.fail] if sf.fail is not None else []
    if not hf:
        return []
    try:
        sk = {f['key'] for f in check(lambda: (build(model), list(model)), 'static twin')}
    except Exception:
        sk = set()
    last = hist[-1][0]
    out = []
    for f in hf:
        if f['key'] in sk or not f['key'].startswith('C17:'):
            out.append(f)
        else:
            f['key'] = f['key'] + ':after-' + OPNAME[last]
            out.append(f)
    return out


def nontrivial(case):
    names = ev(case['names'])
    bases = [san_base(n) for n in names]
    sig = []
    for n, b in zip(names, bases):
        if b is None:
            sig.append('unnamed')
        elif bases.count(b) > 1:
            sig.append('dup')
        elif b in PUBLIC_LOWER:
            sig.append('reserved')
        elif looks_generated(b):
            sig.append('lookalike')
        elif b != n:
            sig.append('changed')
        else:
            sig.append('plain')
    h = tuple(o[0] for o in ev(case['hist'])) if case['op'] == 'hist' else ()
    if case.get('blk') == 'digit':
        return ('digit', case['names'], case.get('hist'))
    if case.get('blk') == 'unders':
        return ('unders', case['names'])
    if case['op'] == 'byname':
        # a key that is one column's stored name and another column's accessor (twin / generated look-alike)
        accs = accessors_of(names, [])
        clash = any(isinstance(n, str) and accs and any(a == n.lower() and accs.index(a) != i for a in accs if a)
                    for i, n in enumerate(names))
        return ('byname', tuple(sig), clash)
    if len(names) > 10:
        b0 = [b for b in bases if b is not None and bases.count(b) > 1]
        firsts = sorted({bases.index(b) for b in b0})
        return ('wide', len(names), tuple('hidden' if 5 <= f < len(names) - 5 else 'shown' for f in firsts), tuple(sorted(set(sig))))
    if not h and set(sig) <= {'plain'}:
        return None
    return (tuple(sig), h)


if __name__ == '__main__':
    main('C17', cases, evaluate,
         rule='all column-name lists up to the stated width over an 18-name pathological alphabet; all rename_column / '
              'view-rename / attribute-replacement / >>-append histories of length <= 2 on all base tables over a sub-alphabet; '
              'each observation channel (dir, getattr, dir-then-getattr, row attribute, item-assignment key, t[stored], repr dot '
              'row, column_names) on a fresh replica; 11-13 column tables with same-accessor groups around the elided middle of '
              'repr; rename_column on each member of same-accessor groups (+ one more operation); string indexing / tuple '
              'selection / rows x name / sort_by / join keys / partition keys by stored names that are other columns\' accessors; '
              'names whose first alphanumeric character is a digit after punctuation / space / underscore ($100, #1 seed, (2023) revenue, '
              '_7up, " 9lives") statically (width <= 3) and introduced by renames / appends: accessor = c + digits..., letter-initial; '
              'names made of segments joined by 1-3 underscores with numeric / non-numeric tails (a__b__0, a___2, a__1__2 ...) alone, in all lists of '
              'width 2 / 3 over a core alphabet and next to a repeated prefix; '
              'distinct = (per-column sanitisation class pattern, op kinds)',
         bound=lambda tier: {'static_width': 3 if tier == 'quick' else 4, 'alphabet': len(ALPHABET),
                             'hist_base_width': 2, 'hist_len': 2,
                             'hist_alphabet': len(HIST_BASE['quick' if tier == 'quick' else 'thorough']),
                             'new_names': len(HIST_NEW['quick' if tier == 'quick' else 'thorough']),
                             'wide_widths': WIDE_WIDTHS, 'wide_groups': len(WIDE_GROUPS), 'rename_first_bases': len(RC_BASES),
                             'byname_alphabet': len(BYNAME_ALPHABET), 'byname_width': 3 if tier == 'quick' else 4,
                             'digit_alphabet': [repr(n) for n in DIGIT_ALPHABET], 'digit_width3_alphabet': len(DIGIT_CORE if tier == 'quick' else DIGIT_ALPHABET),
                             'digit_hist_len': 1 if tier == 'quick' else 2,
                             'underscore_names': len(US_TWO) + len(US_THREE), 'underscore_core': US_CORE if tier == 'quick' else US_WIDE},
         nontrivial=nontrivial)

"""C17 bounded stand-in: every column is reachable by exactly one advertised, valid accessor name.

Scope
-----
static : every column-name list of width <= 3 (quick) / <= 4 (thorough) over an 18-name
         pathological alphabet (case twins, blanks, runs of punctuation, generated-accessor
         look-alikes a__1 / col1_, method names sum / T / cols / 'column names', keyword, digit
         prefix, '_', '', None, non-ASCII, non-str 0).
hist   : every rename / replace / append history of length <= 2 on every base table of width
         <= 2 over a 3-name (thorough: 5) sub-alphabet, new names from a 3-name (thorough: 5)
         sub-alphabet; operations: t.rename_column, rename through a live column view
         (c = t['a']; c.name = 'z'), t.<accessor> = values, t >> named vector.

Oracle (from the statement only): a plain list of stored names is the model; the advertised
accessor set is whatever dir(t) adds over dir(Table()); it has to be a set of distinct valid
identifiers, none of them a public Vector/Table attribute, exactly one per column, each resolving
through getattr / row attribute / `t[0, name] = x` to the column at its own position; accessor i
must follow the documented sanitisation of stored name i; t[stored] is the first column carrying
that stored name; column_names() is the model list.

Every observation channel is taken on a *fresh* replica of the scenario (the advertised names are
read from a twin), so that one channel's side effects (dir() / getattr rebuild the map) cannot
mask or cause another channel's failure.  A failure seen after a history that is also seen on a
table built directly from the final stored names is reported under the static key; otherwise the
key carries `:after-<last op>`.
"""
import itertools
import re

from harness import *  # noqa

ALPHABET = ['a', 'A', 'a b', 'a_b', 'a__1', 'a__2', 'sum', 'T', 'col1_', '1a', '_', '', None, 'é', 'class',
            'cols', 'column names', 0]
HIST_BASE = {'quick': ['a', 'sum', None],
             'thorough': ['a', 'A b', 'a__1', 'sum', None]}
HIST_NEW = {'quick': ['z', 'a', None],
            'thorough': ['z', 'a', 'sum', 'a__1', None]}

EMPTY_DIR = set(dir(Table()))
PUBLIC = {n for n in set(dir(Vector)) | set(dir(Table)) if not n.startswith('_')}
PUBLIC_LOWER = {n.lower() for n in PUBLIC}


# ---------------------------------------------------------------------------------------------
# oracle helpers (statement: lower-case; runs of other characters -> one '_'; outer '_' stripped;
# leading digit prefixed with 'c'; unnamed -> colN_)
# ---------------------------------------------------------------------------------------------
def san_base(name):
    if name is None:
        return None
    s = str(name).lower()
    s = re.sub(r'[^a-z0-9_]+', '_', s)
    s = s.strip('_')
    if s == '':
        return None
    if s[0].isdigit():
        s = 'c' + s
    return s


def ascii_only(name):
    return name is None or all(ord(ch) < 128 for ch in str(name))


def looks_generated(base):
    return bool(re.match(r'^.+__\d+$', base)) or bool(re.match(r'^col\d+_?$', base))


def col_values(j):
    return [10 * j + 1, 10 * j + 2]


# ---------------------------------------------------------------------------------------------
# scenario construction: returns (table, model_names) or raises ScenarioFail
# ---------------------------------------------------------------------------------------------
class ScenarioFail(Exception):
    def __init__(self, fail):
        self.fail = fail


def build(names):
    return Table([Vector(col_values(j), name=n) for j, n in enumerate(names)])


_acc_memo = {}


def accessors_of(names, hist):
    """Accessor name per position, read from a twin (dir + getattr identity); None where unknown."""
    k = (lit(names), lit(hist))
    if k in _acc_memo:
        return _acc_memo[k]
    try:
        t, model = scenario(names, hist)
        adv = sorted(set(dir(t)) - EMPTY_DIR, key=str)
        out = [None] * len(t.cols())
        for n in adv:
            try:
                c = getattr(t, n)
            except Exception:
                continue
            for i, x in enumerate(t.cols()):
                if x is c and out[i] is None:
                    out[i] = n
                    break
    except ScenarioFail:
        out = None
    if len(_acc_memo) > 50000:
        _acc_memo.clear()
    _acc_memo[k] = out
    return out


def scenario(names, hist):
    names = list(names)
    t = build(names)
    model = list(names)
    for step, op in enumerate(hist):
        kind = op[0]
        prior = OPNAME[hist[step - 1][0]] if step else 'construction'
        try:
            if kind == 'rc':
                i, new = op[1], op[2]
                old = model[i]
                first = next(j for j, m in enumerate(model) if type(m) is type(old) and m == old)
                t.rename_column(old, new)
                model[first] = new
            elif kind == 'vw':
                i, new = op[1], op[2]
                old = model[i]
                if isinstance(old, str) and model.index(old) == i:
                    c = t[old]
                    if c is not t.cols()[i]:
                        c = t.cols()[i]
                else:
                    c = t.cols()[i]
                c.name = new
                model[i] = new
            elif kind == 'rp':
                i = op[1]
                acc = accessors_of(names, hist[:step])
                if not acc or acc[i] is None:
                    raise ScenarioFail(None)          # accessor unknown: reported by the prefix case
                setattr(t, acc[i], [100 * (step + 1) + 1, 100 * (step + 1) + 2])
            elif kind == 'ap':
                new = op[1]
                t = t >> Vector([200 * (step + 1) + 1, 200 * (step + 1) + 2], name=new)
                model.append(new)
        except ScenarioFail:
            raise
        except Exception as e:
            raise ScenarioFail(Fail(f'C17:{OPNAME[kind]}:raises:after-{prior}',
                                    f'history {lit(hist)} on names {lit(names)}: step {step} ({kind}) raised '
                                    f'{type(e).__name__}: {e}', 'accepted', f'{type(e).__name__}: {e}'))
    return t, model


OPNAME = {'rc': 'rename_column', 'vw': 'view-rename', 'rp': 'setattr-replace', 'ap': 'rshift-append'}


# ---------------------------------------------------------------------------------------------
# the checks; `make()` returns a fresh (table, model) replica every time it is called
# ---------------------------------------------------------------------------------------------
def check(make, label):
    fails = []

    def F(key, what, exp=None, obs=None):
        fails.append(Fail(key, f'{label}: {what}', exp, obs))

    t, model = make()
    ncols = len(model)

    m = truthful(t)
    if m:
        F('C03:Table:truthful', m)

    # -- stored names -------------------------------------------------------------------------
    try:
        got = t.column_names()
        if not same(list(got), list(model)):
            F('C17:column_names:altered', 'column_names() differs from the stored names', model, got)
    except Exception as e:
        F('C17:column_names:raises', f'{type(e).__name__}: {e}')
    if len(t.cols()) != ncols:
        F('C17:cols:count', 'number of columns differs from the model', ncols, len(t.cols()))
        return fails

    # -- advertised names (twin 1) ------------------------------------------------------------
    try:
        adv = sorted(set(dir(t)) - EMPTY_DIR, key=str)
    except Exception as e:
        F('C17:dir:raises', f'dir(t) raised {type(e).__name__}: {e}')
        return fails
    for n in adv:
        if not isinstance(n, str) or not n.isidentifier():
            F('C17:dir:not-identifier', f'advertised accessor {n!r} is not a valid identifier', 'identifier', n)
        elif n in PUBLIC:
            F('C17:dir:shadows-public', f'advertised accessor {n!r} shadows a public Vector/Table attribute', None, n)
    if len(adv) != ncols:
        F('C17:dir:count-mismatch', f'{len(adv)} advertised accessors {adv} for {ncols} columns '
          f'(not distinct / not one per column)', ncols, adv)

    # -- attribute resolution on a fresh replica (getattr is the first thing the table sees) ----
    t2, _ = make()
    pos = {}
    for n in adv:
        if not isinstance(n, str):
            continue
        try:
            c = getattr(t2, n)
        except Exception as e:
            sub = ':col-prefix' if (n.startswith('col') and n.endswith('_') and not n[3:-1].isdigit()) else ''
            F('C17:getattr:advertised-unresolved' + sub,
              f'dir(t) advertises {n!r} but getattr raises {type(e).__name__}: {e}', 'a column', f'{type(e).__name__}')
            continue
        idx = [i for i, x in enumerate(t2.cols()) if x is c]
        if not idx:
            F('C17:getattr:not-a-column', f'getattr(t, {n!r}) is not one of t.cols()', 'a column', type(c).__name__)
            continue
        pos[n] = idx[0]
    if len(set(pos.values())) != len(pos):
        F('C17:getattr:two-names-one-column', f'two advertised names resolve to the same column: {pos}', None, pos)
    by_pos = {i: n for n, i in pos.items()}

    # accessors that did not resolve: place them by the oracle when exactly one free column fits
    free = [i for i in range(ncols) if i not in by_pos]
    for n in adv:
        if isinstance(n, str) and n not in pos:
            fit = [i for i in free if fits(model[i], i, n)]
            if len(fit) == 1:
                pos[n] = fit[0]
                by_pos[fit[0]] = n
                free.remove(fit[0])
    for i in range(ncols):
        if i not in by_pos:
            F('C17:dir:column-without-accessor', f'column {i} (stored name {model[i]!r}) has no advertised accessor '
              f'that resolves to it; advertised {adv}', 'one accessor per column', adv)

    # -- sanitisation rule --------------------------------------------------------------------
    bases = [san_base(s) for s in model]
    for i in range(ncols):
        n = by_pos.get(i)
        if n is None or not ascii_only(model[i]):
            continue
        b = bases[i]
        if b is None:
            if n != f'col{i}_':
                F('C17:sanitise:unnamed-not-colN_', f'column {i} stored {model[i]!r} advertised as {n!r}', f'col{i}_', n)
        else:
            plain = (bases.count(b) == 1 and b not in PUBLIC_LOWER and not looks_generated(b)
                     and not any(bb is not None and bb != b and bb.startswith(b) for bb in bases))
            if plain and n != b:
                F('C17:sanitise:rule', f'column {i} stored {model[i]!r} advertised as {n!r}', b, n)
            elif not n.startswith(b):
                F('C17:sanitise:rule', f'column {i} stored {model[i]!r} advertised as {n!r} (does not extend {b!r})', b, n)

    # -- dir() followed by getattr (tab completion, then use) -----------------------------------
    t3, _ = make()
    try:
        dir(t3)
    except Exception:
        pass
    for n, i in sorted(pos.items()):
        try:
            c = getattr(t3, n)
            if c is not t3.cols()[i]:
                F('C17:getattr-after-dir:wrong-column', f'after dir(t), t.{n} is not column {i}', i,
                  [j for j, x in enumerate(t3.cols()) if x is c])
        except Exception as e:
            if not any(f['key'].startswith('C17:getattr:advertised-unresolved') and repr(n) in f['what'] for f in fails):
                F('C17:getattr-after-dir:unresolved', f'after dir(t), t.{n} raises {type(e).__name__}: {e}', 'column', type(e).__name__)

    # -- row attribute access + string indexing on one fresh replica (both are reads) ----------
    t4, _ = make()
    for n, i in sorted(pos.items()):
        want = t4.cols()[i][0]
        try:
            got = getattr(t4[0], n)
            if not same(got, want):
                F('C17:row-attr:wrong-column', f't[0].{n} gives {got!r}, column {i} holds {want!r}', want, got)
        except Exception as e:
            F('C17:row-attr:unresolved', f't[0].{n} raises {type(e).__name__}: {e}', want, type(e).__name__)
    seen = set()
    for i, s in enumerate(model):
        if not isinstance(s, str) or s in seen:
            continue
        seen.add(s)
        try:
            c = t4[s]
            idx = [j for j, x in enumerate(t4.cols()) if x is c]
            if idx != [i]:
                F('C17:getitem-name:not-first-occurrence', f't[{s!r}] resolves to column {idx}, first occurrence is {i}', i, idx)
        except Exception as e:
            F('C17:getitem-name:raises', f't[{s!r}] raises {type(e).__name__}: {e}', i, type(e).__name__)

    # -- accessor as column key in item assignment on a fresh replica ---------------------------
    t5, _ = make()
    exp = [list(c) for c in t5.cols()]
    for k, (n, i) in enumerate(sorted(pos.items())):
        val = 900 + k
        try:
            t5[0, n] = val
        except AliasError as e:
            # is the write itself refused, whatever key addresses the column?  then it is C15's business
            # (spurious refusal; allocation dependent on this tree), not a naming failure
            try:
                t5[0, i] = val
                F('C17:setitem-key:unresolved', f't[0, {n!r}] = {val} raises AliasError but t[0, {i}] = {val} is accepted', 'accepted', 'AliasError')
            except AliasError:
                F('C15:Table.setitem:spurious-alias-error', f't[0, {i}] = {val} on a table nobody else shares raises AliasError: {e}',
                  'accepted', 'AliasError')
            except Exception:
                pass
            break
        except Exception as e:
            F('C17:setitem-key:unresolved', f't[0, {n!r}] = {val} raises {type(e).__name__}: {e}', 'accepted', type(e).__name__)
            continue
        exp2 = [list(c) for c in exp]
        exp2[i][0] = val
        after = [list(c) for c in t5.cols()]
        if after != exp2:
            F('C17:setitem-key:wrong-column', f't[0, {n!r}] = {val} turned {exp} into {after} (column {i} expected)', exp2, after)
        exp = after
    m = truthful(t5)
    if m:
        F('C03:Table.setitem:truthful', m)

    # -- dot row of repr ----------------------------------------------------------------------
    try:
        r = repr(t3)
    except Exception:
        r = None                      # totality of repr is C20's business
    if r is not None and ncols and len(by_pos) == ncols:
        lines = r.split('\n')
        header = lines[:max(0, len(lines) - (len(t3) + 2))]
        for ln in header:
            toks = ln.split()
            if toks and all(tk.startswith('.') and len(tk) > 1 for tk in toks):
                want = ['.' + by_pos[i] for i in range(ncols)]
                if toks != want:
                    bad = [i for i in range(min(len(toks), ncols)) if toks[i] != want[i]]
                    sub = ':non-str-name' if len(toks) == ncols and all(not isinstance(model[i], str) and model[i] is not None for i in bad) else ''
                    F('C17:repr-dot-row:mismatch' + sub, f'dot row {toks} differs from the advertised accessors {want}', want, toks)
                break
    return fails


def fits(stored, i, n):
    b = san_base(stored)
    if b is None:
        return n == f'col{i}_'
    return n.startswith(b)


# ---------------------------------------------------------------------------------------------
def ops_for(width, new_names):
    out = []
    for i in range(width):
        for nn in new_names:
            out.append(['rc', i, nn])
            out.append(['vw', i, nn])
        out.append(['rp', i])
    for nn in new_names:
        out.append(['ap', nn])
    return out


def cases(tier, seed):
    wmax = 3 if tier == 'quick' else 4
    for w in range(0, wmax + 1):
        for combo in itertools.product(ALPHABET, repeat=w):
            yield {'op': 'static', 'names': lit(list(combo))}
    hb, hn = HIST_BASE[tier if tier in HIST_BASE else 'thorough'], HIST_NEW[tier if tier in HIST_NEW else 'thorough']
    hw = 2
    for w in range(1, hw + 1):
        for combo in itertools.product(hb, repeat=w):
            for op1 in ops_for(w, hn):
                yield {'op': 'hist', 'names': lit(list(combo)), 'hist': lit([op1])}
                w2 = w + 1 if op1[0] == 'ap' else w
                for op2 in ops_for(w2, hn):
                    yield {'op': 'hist', 'names': lit(list(combo)), 'hist': lit([op1, op2])}


def evaluate(case):
    names = ev(case['names'])
    if case['op'] == 'static':
        try:
            build(names)
        except Exception as e:
            return [Fail('C17:Table:construct-raises', f'Table of columns named {case["names"]} raised {type(e).__name__}: {e}')]
        return check(lambda: (build(names), list(names)), f'names {case["names"]}')
    hist = ev(case['hist'])
    try:
        _, model = scenario(names, hist)
    except ScenarioFail as sf:
        return [sf.fail] if sf.fail is not None else []
    label = f'names {case["names"]} after {case["hist"]}'
    try:
        hf = check(lambda: scenario(names, hist), label)
    except ScenarioFail as sf:
        return [sf.fail] if sf.fail is not None else []
    if not hf:
        return []
    try:
        sk = {f['key'] for f in check(lambda: (build(model), list(model)), 'static twin')}
    except Exception:
        sk = set()
    last = hist[-1][0]
    out = []
    for f in hf:
        if f['key'] in sk or not f['key'].startswith('C17:'):
            out.append(f)
        else:
            f['key'] = f['key'] + ':after-' + OPNAME[last]
            out.append(f)
    return out


def nontrivial(case):
    names = ev(case['names'])
    bases = [san_base(n) for n in names]
    sig = []
    for n, b in zip(names, bases):
        if b is None:
            sig.append('unnamed')
        elif bases.count(b) > 1:
            sig.append('dup')
        elif b in PUBLIC_LOWER:
            sig.append('reserved')
        elif looks_generated(b):
            sig.append('lookalike')
        elif b != n:
            sig.append('changed')
        else:
            sig.append('plain')
    h = tuple(o[0] for o in ev(case['hist'])) if case['op'] == 'hist' else ()
    if not h and set(sig) <= {'plain'}:
        return None
    return (tuple(sig), h)


if __name__ == '__main__':
    main('C17', cases, evaluate,
         rule='all column-name lists up to the stated width over an 18-name pathological alphabet; all rename_column / '
              'view-rename / attribute-replacement / >>-append histories of length <= 2 on all base tables over a sub-alphabet; '
              'each observation channel (dir, getattr, dir-then-getattr, row attribute, item-assignment key, t[stored], repr dot '
              'row, column_names) on a fresh replica; distinct = (per-column sanitisation class pattern, op kinds)',
         bound=lambda tier: {'static_width': 3 if tier == 'quick' else 4, 'alphabet': len(ALPHABET),
                             'hist_base_width': 2, 'hist_len': 2,
                             'hist_alphabet': len(HIST_BASE['quick' if tier == 'quick' else 'thorough']),
                             'new_names': len(HIST_NEW['quick' if tier == 'quick' else 'thorough'])},
         nontrivial=nontrivial)

"""C16 bounded stand-in: fingerprints track content - never stale, and they notice every change.

A case is a setup (a free vector v, a table t of shape <= 3x3, and c = the live column handle
t.<first column>) followed by a history of <= 3 (quick) / <= 4 (thorough) statements drawn from:
explicit fingerprint() calls on v / t / c, read-only operations, every vector write path (int,
negative int, slice, slice-scalar, list mask, Vector mask, index list, index Vector, promotion, None,
same-value write), every table write path (live column handle, held handle, cell by index / name,
promoting cell, row, column, region, attribute / indexed attribute replacement with a list and with a
vector, rename), and a write through the donor of an attribute assignment.  A second family writes
every position of v and every cell of t with a pool of values (equal, unequal, equal-hash, the
61-bit residue pair) with and without a cached fingerprint.  Family P: promotion by write of every
ladder step (bool -> int -> float -> complex, date -> datetime, nullable date) through every write
path of the free vector and of the table column, with / without cached fingerprints before and with a
column- or table-level fingerprint() call after the write.  Family I: for EVERY write path, a column-
level fingerprint() call between two table-level ones with the write in between (t.fingerprint();
write; t.a.fingerprint(); t.fingerprint()), in all cache pre-states.

The monitor NEVER calls fingerprint() on the live objects during the history (that would fill the
caches and hide the uncached / cached distinction); every prefix is its own case.  After the last
statement, for every live object x:
  F1  x.fingerprint() == fingerprint of an object rebuilt from x's plain values
      (Vector(list(x)) / Table([Vector(list(col), name=col.name) ...]))
  F2  for every fingerprint recorded by an explicit call earlier in the history:
      same contents now  -> same fingerprint (read-only operations never change it)
      some element now has a different hash() -> different fingerprint (reported only when F1 holds,
      i.e. when it is the fingerprint function itself that cannot see the change)

Family S (string sensitivity): every ordered pair (a, b) of unequal strings from STR_POOL - pairs that
collide under hand-rolled string hashes (base-31 "Aa"/"BB", "ab"/"bC", "AaAa"/"BBBB", "Aa"+x / "BB"+x; the
same construction for bases 33, 37, 131, 256, 65599; little-endian polynomials; additive / xor hashes:
anagrams, "ad"/"bc", "aa"/"bb"; case- / whitespace- / prefix- / length-only hashes) and ordinary pairs.
b is written over a at one position of a 3-element str vector / of the str column of a 3x2 table through
four write paths (v[i], v[i:i+1], t.s[i], t[i, 0]), with the fingerprint cached on the object itself or
taken from a twin.  Whenever Python's hash(a) != hash(b): the fingerprint of the vector, of the column
and of the table must differ from the one before the write (and, F1, equal that of a rebuilt object).
"""
import itertools

from harness import *  # noqa

P61 = (1 << 61) - 1

SETUPS = {
    't32': "v = Vector([1, -1, 3], name='v'); t = Table({'a': [1, 2, 3], 'b': [4, 5, 6]}); c = t.a",
    't23': "v = Vector([1, -1], name='v'); t = Table({'a': [1, 2], 'b': [4, 5], 'k': [7, 8]}); c = t.a",
    't11': "v = Vector([1], name='v'); t = Table({'a': [1]}); c = t.a",
    't33-rshift': "v = Vector([1, -1, 3], name='v'); t = Vector([1, 2, 3], name='a') >> Vector([4, 5, 6], name='b') >> Vector([7, 8, 9], name='k'); c = t.a",
}
SHAPE = {'t32': (3, 2), 't23': (2, 3), 't11': (1, 1), 't33-rshift': (3, 3)}

# (name, statement, kind)  kind: 'fp' explicit fingerprint call (records), 'read', 'write'
FP = [
    ('Vector.fingerprint', 'fp_v = v.fingerprint()', 'fp'),
    ('Table.fingerprint', 'fp_t = t.fingerprint()', 'fp'),
    ('Column.fingerprint', 'fp_c = c.fingerprint()', 'fp'),
]
READS = [
    ('Vector.repr', 'repr(v)', 'read'),
    ('Vector.add-scalar', 'v + 1', 'read'),
    ('Vector.getitem-slice', 'v[0:2]', 'read'),
    ('Table.repr', 'repr(t)', 'read'),
    ('Table.getitem-slice', 't[0:2]', 'read'),
    ('Table.iter', '[tuple(r) for r in t]', 'read'),
    ('Table.sort_by', "t.sort_by('a', reverse=True)", 'read'),
    ('Table.getattr', 't.b', 'read'),
]
V_WRITES = [
    ('Vector.setitem-int', 'v[0] = 100', 'write'),
    ('Vector.setitem-negint', 'v[-1] = 100', 'write'),
    ('Vector.setitem-same-value', 'v[0] = 1', 'write'),
    ('Vector.setitem-slice', 'v[0:2] = [70, 80]', 'write'),
    ('Vector.setitem-slice-swap', 'v[0:2] = [v[1], v[0]]', 'write'),
    ('Vector.setitem-slice-scalar', 'v[1:] = 0', 'write'),
    ('Vector.setitem-mask-list', 'v[[True, False, True][:len(v)]] = 0', 'write'),
    ('Vector.setitem-mask-vector', 'v[Vector([True, False, True][:len(v)])] = 50', 'write'),
    ('Vector.setitem-index-list', 'v[[0, -1]] = [70, 80]', 'write'),
    ('Vector.setitem-index-vector', 'v[Vector([0])] = [60]', 'write'),
    ('Vector.setitem-promote', 'v[0] = 1.5', 'write'),
    ('Vector.setitem-none', 'v[0] = None', 'write'),
    ('Vector.setitem-refused', "v[0] = 's'", 'write'),
]
T_WRITES = [
    ('Table.column-setitem', 't.a[0] = 99', 'write'),
    ('Table.column-setitem-last', 't.cols()[-1][-1] = 99', 'write'),
    ('Table.held-column-setitem', 'c[0] = 98', 'write'),
    ('Table.held-column-setitem-slice', 'c[0:1] = [97]', 'write'),
    ('Table.held-column-promote', 'c[0] = 2.5', 'write'),
    ('Table.setitem-cell', 't[0, 0] = 96', 'write'),
    ('Table.setitem-cell-name', "t[-1, 'a'] = 95", 'write'),
    ('Table.setitem-cell-promote', 't[0, -1] = 1.5', 'write'),
    ('Table.setitem-cell-same-value', 't[0, 0] = 1', 'write'),
    ('Table.setitem-row', 't[0, :] = [70 + i for i in range(len(t.cols()))]', 'write'),
    ('Table.setitem-row-plain', 't[-1] = [80 + i for i in range(len(t.cols()))]', 'write'),
    ('Table.setitem-column', "t[:, 'a'] = [60 + i for i in range(len(t))]", 'write'),
    ('Table.setitem-region', "t[0:1, 0:1] = Table({'p': [55]})", 'write'),
    ('Table.setattr-list', 't.a = [40 + i for i in range(len(t))]', 'write'),
    ('Table.setattr-vector', 't.a = v', 'write'),
    ('Table.setattr-indexed-list', 't.a__0 = [30 + i for i in range(len(t))]', 'write'),
    ('Table.rename_column', "t.rename_column('a', 'z')", 'write'),
    ('Table.column-name-set', "c.name = 'y'", 'write'),
    ('Table.setitem-refused', 't[0, :] = [1]', 'write'),
]
ALPHABET = FP + READS + V_WRITES + T_WRITES
CORE = [o for o in ALPHABET if o[0] in (
    'Vector.fingerprint', 'Table.fingerprint', 'Column.fingerprint', 'Table.repr', 'Vector.setitem-int', 'Vector.setitem-promote',
    'Vector.setitem-slice', 'Table.column-setitem', 'Table.held-column-setitem', 'Table.setitem-cell', 'Table.setitem-row',
    'Table.setattr-list', 'Table.setattr-vector', 'Table.setitem-column', 'Table.rename_column')]
BY_SRC = {o[1]: o for o in ALPHABET}

# family B: every position x value pool, with / without a cached fingerprint
POOL = ['1', '2', '100', '-1', '-2', 'True', '1.0', '1.5', 'None', str(1 - P61), str(2 + P61), '0']

# family P: promotion by write, every ladder step.  kind -> (column literal, promoting values)
LADDERS = {
    'bool': ('[True, False, True]', ['2', '1.5', '1j']),
    'int': ('[1, -1, 3]', ['1.5', '1j']),
    'float': ('[1.0, 2.5, 3.0]', ['1j']),
    'date': ('[date(2020,1,1), date(2020,1,2), date(2021,5,5)]', ['datetime(2022,3,4,5,6)']),
    'date-null': ('[date(2020,1,1), None, date(2021,5,5)]', ['datetime(2022,3,4,5,6)']),
}
LADDER_SETUPS = {'lad-' + k: f"v = Vector({vals}, name='v'); t = Table({{'a': {vals}, 'b': [4, 5, 6]}}); c = t.a"
                 for k, (vals, _) in LADDERS.items()}
ALL_SETUPS = dict(SETUPS)
ALL_SETUPS.update(LADDER_SETUPS)
FP_V, FP_T, FP_C = 'fp_v = v.fingerprint()', 'fp_t = t.fingerprint()', 'fp_c = c.fingerprint()'
# column-level fingerprint() calls that are not recorded (fresh lookup of the column through the table)
COL_FP = [
    ('Column.fingerprint-lookup', 't.a.fingerprint()', 'read'),
    ('Column.fingerprint-last', 't.cols()[-1].fingerprint()', 'read'),
    ('Column.fingerprint-all', '[col.fingerprint() for col in t.cols()]', 'read'),
]
BY_SRC.update({o[1]: o for o in COL_FP})


def _promotion_cases():
    for k, (vals, xs) in LADDERS.items():
        s = 'lad-' + k
        for x in xs:
            vw = [(f'v[{i}] = {x}', 'Vector.setitem-promote') for i in (0, 1, -1)]
            vw += [(f'v[0:1] = [{x}]', 'Vector.setitem-slice'), (f'v[[0, -1]] = [{x}, {x}]', 'Vector.setitem-index-list'),
                   (f'v[[True, False, False]] = {x}', 'Vector.setitem-mask-list')]
            for src, op in vw:
                for pre in ([], [FP_V]):
                    yield {'setup': s, 'hist': pre + [src], 'fam': 'P', 'opn': {src: op}}
            tw = []
            for i in (0, 1, -1):
                tw += [(f'c[{i}] = {x}', 'Table.held-column-setitem'), (f't.a[{i}] = {x}', 'Table.column-setitem'),
                       (f't[{i}, 0] = {x}', 'Table.setitem-cell'), (f"t[{i}, 'a'] = {x}", 'Table.setitem-cell'),
                       (f't[{i}, :] = [{x}, 4]', 'Table.setitem-row')]
            tw += [(f"t[:, 'a'] = [{x}, {x}, {x}]", 'Table.setitem-column'),
                   (f"t[0:1, 0:1] = Table({{'p': [{x}]}})", 'Table.setitem-region'),
                   (f'c[0:1] = [{x}]', 'Table.held-column-setitem')]
            for src, op in tw:
                for pre in ([], [FP_V, FP_T, FP_C], [FP_T], [FP_C]):
                    for post in ([], [FP_C], ['t.a.fingerprint()'], [FP_T], ['t.a.fingerprint()', FP_T]):
                        yield {'setup': s, 'hist': pre + [src] + post, 'fam': 'P', 'opn': {src: op}}


def _interleaving_cases(tier):
    """Every write path between two table-level fingerprint() calls, with a column-level call after the write
    (the final table-level call is the monitor's)."""
    writes = [o[1] for o in V_WRITES + T_WRITES]
    mids = [[FP_C], ['t.a.fingerprint()'], ['t.cols()[-1].fingerprint()'], ['[col.fingerprint() for col in t.cols()]'], [FP_T]]
    for s in SETUPS:
        for pre in ([FP_T], [FP_T, FP_C], [FP_C], [FP_V, FP_T, FP_C]):
            for w in writes:
                for mid in mids:
                    yield {'setup': s, 'hist': pre + [w] + mid, 'fam': 'I'}
    # two writes, each followed by a column-level call
    core_w = [o[1] for o in CORE if o[2] == 'write']
    for s in (['t32'] if tier == 'quick' else ['t32', 't33-rshift', 't11']):
        for w1 in core_w:
            for w2 in core_w:
                for mid in (FP_C, 't.a.fingerprint()'):
                    yield {'setup': s, 'hist': [FP_T, w1, mid, w2, mid], 'fam': 'I'}


def _history_cases(tier, seed):
    n_full, n_core = (2, 3) if tier == 'quick' else (3, 4)
    two = ['t32', 't33-rshift']
    for s in SETUPS:
        yield {'setup': s, 'hist': []}
    for n in range(1, n_full + 1):
        for combo in itertools.product(ALPHABET, repeat=n):
            for s in (SETUPS if n <= 2 else two):
                yield {'setup': s, 'hist': [o[1] for o in combo]}
    for combo in itertools.product(CORE, repeat=n_core):
        for s in two:
            yield {'setup': s, 'hist': [o[1] for o in combo]}
    # family B
    for s in SETUPS:
        nr, nc = SHAPE[s]
        for pre in ([], ['fp_v = v.fingerprint()', 'fp_t = t.fingerprint()', 'fp_c = c.fingerprint()']):
            for x in POOL:
                for i in list(range(nr)) + [-1]:
                    yield {'setup': s, 'hist': pre[:1] + [f'v[{i}] = {x}'], 'fam': 'B'}
                    yield {'setup': s, 'hist': pre[1:] + [f'c[{i}] = {x}'], 'fam': 'B'}
                    for j in range(nc):
                        yield {'setup': s, 'hist': pre[1:] + [f't[{i}, {j}] = {x}'], 'fam': 'B'}
                        yield {'setup': s, 'hist': pre[1:] + [f't.cols()[{j}][{i}] = {x}'], 'fam': 'B'}
    yield from _promotion_cases()
    yield from _interleaving_cases(tier)


# --------------------------------------------------------------------------------------------
_CODE = {}
_G = dict(NS)


def _compiled(src):
    c = _CODE.get(src)
    if c is None:
        c = _CODE[src] = compile(src, '<history>', 'exec')
    return c


def _truthful(o):
    try:
        return truthful(o)
    except Exception as e:
        return f'dtype does not describe the contents (rendering the offending value raised {type(e).__name__})'


# trivial variants of one call site share its key
KEY_OP = {
    'Table.column-setitem-last': 'Table.column-setitem',
    'Table.held-column-setitem-slice': 'Table.held-column-setitem', 'Table.held-column-promote': 'Table.held-column-setitem',
    'Table.setitem-cell-name': 'Table.setitem-cell', 'Table.setitem-cell-promote': 'Table.setitem-cell',
    'Table.setitem-cell-same-value': 'Table.setitem-cell', 'Table.setitem-row-plain': 'Table.setitem-row',
    'Table.setattr-list': 'Table.setattr', 'Table.setattr-vector': 'Table.setattr', 'Table.setattr-indexed-list': 'Table.setattr-indexed',
}


def _opname(src, opn=None):
    o = BY_SRC.get(src)
    if o:
        return o[0], o[2]
    if opn and src in opn:
        return opn[src], 'write'
    if src.startswith('v['):
        return 'Vector.setitem-int', 'write'
    if src.startswith('c['):
        return 'Table.held-column-setitem', 'write'
    if src.startswith('t.cols()'):
        return 'Table.column-setitem', 'write'
    return 'Table.setitem-cell', 'write'


def contents(x):
    """Plain values of a live object (vector: list; table: list of (name, list))."""
    if isinstance(x, Table):
        return [(c._name, list(c)) for c in x.cols()]
    return list(x)


def rebuild(x):
    if isinstance(x, Table):
        return Table([Vector(list(c), name=c._name) for c in x.cols()])
    return Vector(list(x))


def _flat(cont):
    if cont and isinstance(cont[0], tuple) and len(cont[0]) == 2 and isinstance(cont[0][1], list):
        return [e for _, col in cont for e in col], [len(col) for _, col in cont]
    return list(cont), [len(cont)]


def _h(e):
    try:
        return hash(e)
    except Exception:
        return ('unhashable', repr(e))


def relation(a, b):
    """'same' | 'changed' (an element with a different hash()) | 'undecided' (equal hashes, e.g. 1 / 1.0 / True, -1 / -2)."""
    fa, sa = _flat(a)
    fb, sb = _flat(b)
    if sa != sb:
        return 'undecided'
    if all(same(x, y) for x, y in zip(fa, fb)):
        return 'same'
    if any(_h(x) != _h(y) for x, y in zip(fa, fb)):
        return 'changed'
    return 'undecided'


def _residue_only(a, b):
    fa, _ = _flat(a)
    fb, _ = _flat(b)
    diff = [(x, y) for x, y in zip(fa, fb) if _h(x) != _h(y)]
    return bool(diff) and all(isinstance(_h(x), int) and isinstance(_h(y), int) and (_h(x) - _h(y)) % P61 == 0 for x, y in diff)


def _same_contents(a, b):
    fa, sa = _flat(a)
    fb, sb = _flat(b)
    return sa == sb and all(same(x, y) for x, y in zip(fa, fb))


def _history_evaluate(case):
    fails = []
    env = {}
    try:
        exec(_compiled(ALL_SETUPS[case['setup']]), _G, env)
    except Exception as e:
        return [Fail('C16:setup:raised', f'{type(e).__name__}: {e}')]
    records = []            # (object name, fingerprint, contents at that time, statement index)
    done = []
    names = ('v', 't', 'c')
    cur = {n: contents(env[n]) for n in names}       # plain reads only: never touches a fingerprint cache
    last_change = {n: None for n in names}           # op of the last statement that changed the contents of n
    last_op = 'no-statement'
    pre_truth = {n: None for n in names}
    for k, src in enumerate(case['hist']):
        op, kind = _opname(src, case.get('opn'))
        if k == len(case['hist']) - 1:
            pre_truth = {n: _truthful(env[n]) for n in names}     # reads storage and dtype only, no fingerprint cache
        try:
            exec(_compiled(src), _G, env)
        except Exception:
            done.append(src + '  # raised')
            continue
        done.append(src)
        last_op = op
        if kind == 'fp':
            name = src.split(' = ')[1].split('.')[0]
            records.append((name, env['fp_' + name], contents(env[name]), k))
        else:
            for n in names:
                c2 = contents(env[n])
                if not _same_contents(cur[n], c2):
                    last_change[n] = op
                cur[n] = c2
    hist = ALL_SETUPS[case['setup']] + '; ' + '; '.join(done)
    for name in names:
        x = env[name]
        kindname = 'table' if isinstance(x, Table) else ('column' if name == 'c' else 'vector')
        lw = last_change[name] or last_op
        lw = KEY_OP.get(lw, lw)
        if kindname != 'vector' and lw.startswith('Vector.'):
            lw = 'donor-vector-write'      # the table / column changed through the free vector v (after t.a = v)
        try:
            now = x.fingerprint()
            cont = contents(x)
        except Exception as e:
            fails.append(Fail(f'C16:{lw}:{kindname}-fingerprint-raised', f'{hist}: {name}.fingerprint() raised {type(e).__name__}: {e}'))
            continue
        try:
            fresh = rebuild(x).fingerprint()
        except Exception:
            fresh = None        # contents that cannot be rebuilt (outside scope)
        f1 = True
        if fresh is not None and now != fresh:
            f1 = False
            cached = any(r[0] == name for r in records)
            fails.append(Fail(f'C16:{lw}:{kindname}-fingerprint-stale',
                              f'{hist}: {name}.fingerprint() differs from the fingerprint of a freshly built object with the same '
                              f'contents {cont!r}' + (' (a fingerprint of it had been taken earlier)' if cached else ' (never fingerprinted before)'),
                              fresh, now))
        for rname, rfp, rcont, k in records:
            if rname != name or not f1:
                continue
            rel = relation(rcont, cont)
            if rel == 'same' and rfp != now:
                fails.append(Fail(f'C16:{last_op}:{kindname}-fingerprint-changed-without-content-change',
                                  f'{hist}: contents of {name} are what they were at statement {k + 1}, fingerprint differs', rfp, now))
            elif rel == 'changed' and rfp == now:
                if _residue_only(rcont, cont):
                    fails.append(Fail('C16:fingerprint:mod-p-residue',
                                      f'{hist}: {name} changed from {rcont!r} to {cont!r} (hashes differ by a multiple of 2**61-1) '
                                      f'and the fingerprint is the same', 'different fingerprint', now))
                else:
                    fails.append(Fail(f'C16:{lw}:{kindname}-fingerprint-blind-to-change',
                                      f'{hist}: {name} changed from {rcont!r} to {cont!r}, fingerprint unchanged', 'different fingerprint', now))
        m = _truthful(x)
        if m and name != 'c' and not any(pre_truth.values()):
            fails.append(Fail(f'C03:{KEY_OP.get(last_op, last_op)}:truthful', f'{hist}: {m}'))
    return fails


# ---- family S: pairs that defeat weak hand-rolled string hashes ------------------------------------
def _poly_twin(s2, base):
    """A string != 'A' + s2 with the same big-endian base-`base` polynomial hash: ('A', c) -> ('B', c - base)."""
    return 'B' + chr(ord(s2) - base)


STR_POOL = [
    # base 31 (Java-style h = 31*h + ord)
    'Aa', 'BB', 'ab', 'bC', 'AaAa', 'BBBB', 'AaBB', 'BBAa', 'Aax', 'BBx', 'Aa 1', 'BB 1', 'xAa', 'xBB',
    # same construction, other bases: 33 (djb2), 37, 131, 256, 65599 (sdbm)
    _poly_twin('a', 33), _poly_twin('a', 37), 'A' + chr(200), _poly_twin(chr(200), 131), 'A' + chr(0x161), _poly_twin(chr(0x161), 256),
    'A' + chr(65599 + 48), _poly_twin(chr(65599 + 48), 65599),
    # little-endian polynomial (h = sum ord(c_i) * B**i): the reversed strings
    'aA', 'Cb',
    # additive / xor hashes: anagrams and equal sums / equal xors
    'ba', 'ad', 'bc', 'aa', 'bb',
    # case-folding, whitespace-stripping, length-only, prefix-only hashes; ordinary strings
    'AA', 'a ', 'a', 'b', '', 'hello', 'Hello', 'hellp', 'world',
    'abcdefghijklmnopqrstuvwxyz0', 'abcdefghijklmnopqrstuvwxyz1', 'abcdefghijklm_nopqrstuvwxyz', 'abcdefghijklm-nopqrstuvwxyz',
]
assert len(set(STR_POOL)) == len(STR_POOL)
assert 65 * 31 + 97 == 66 * 31 + 66 and 97 * 31 + 98 == 98 * 31 + 67        # "Aa"/"BB", "ab"/"bC" under base 31
S_PATHS = ['Vector.setitem-int', 'Vector.setitem-slice', 'Table.column-setitem', 'Table.setitem-cell']


def _sens_cases(tier):
    idx = 0
    for a in STR_POOL:
        for b in STR_POOL:
            if a == b:
                continue
            for path in S_PATHS:
                idx += 1
                if tier == 'quick':
                    yield {'sens': [a, b], 'path': path, 'pos': idx % 3, 'cached': bool((idx // 3) % 2)}
                else:
                    for pos in range(3):
                        for cached in (True, False):
                            yield {'sens': [a, b], 'path': path, 'pos': pos, 'cached': cached}


def _sens_evaluate(case):
    a, b = case['sens']
    path, i, cached = case['path'], case['pos'], case['cached']
    base = ['x', 'y', 'z']
    base[i] = a
    after = list(base)
    after[i] = b
    on_vector = path.startswith('Vector.')
    stmt = {'Vector.setitem-int': f'v[{i}] = {b!r}', 'Vector.setitem-slice': f'v[{i}:{i + 1}] = [{b!r}]',
            'Table.column-setitem': f't.s[{i}] = {b!r}', 'Table.setitem-cell': f't[{i}, 0] = {b!r}'}[path]
    hist = (f"v = Vector({base!r}, name='s'); t = Table({{'s': {base!r}, 'k': [1, 2, 3]}}); "
            + ('fingerprints taken on v / t / t.s; ' if cached else 'fingerprints taken on twins built the same way; ') + stmt)
    fails = []
    try:
        def build():
            return Vector(list(base), name='s'), Table({'s': list(base), 'k': [1, 2, 3]})
        v, t = build()
        src_v, src_t = (v, t) if cached else build()
        fp0 = {'vector': src_v.fingerprint(), 'table': src_t.fingerprint(), 'column': src_t.s.fingerprint()}
    except Exception as e:
        return [Fail('C16:setup:raised', f'{hist}: {type(e).__name__}: {e}')]
    try:
        if path == 'Vector.setitem-int':
            v[i] = b
        elif path == 'Vector.setitem-slice':
            v[i:i + 1] = [b]
        elif path == 'Table.column-setitem':
            t.s[i] = b
        else:
            t[i, 0] = b
    except Exception as e:
        return [Fail(f'C16:{path}:str-write-raised', f'{hist}: {type(e).__name__}: {e}')]
    objs = [('vector', v)] if on_vector else [('table', t), ('column', t.cols()[0])]
    differ = hash(a) != hash(b)
    for kindname, x in objs:
        try:
            cont = contents(x)
            flat = cont if kindname != 'table' else cont[0][1]
            if flat != after:
                continue                              # the write did not take: C08's business
            now = x.fingerprint()
            fresh = rebuild(x).fingerprint()
        except Exception as e:
            fails.append(Fail(f'C16:{path}:{kindname}-fingerprint-raised', f'{hist}: fingerprint() raised {type(e).__name__}: {e}'))
            continue
        if now != fresh:
            fails.append(Fail(f'C16:{path}:{kindname}-fingerprint-stale',
                              f'{hist}: the {kindname} fingerprint differs from the fingerprint of a freshly built object with the same contents {cont!r}'
                              + (' (a fingerprint of it had been taken earlier)' if cached else ' (never fingerprinted before)'), fresh, now))
            continue
        if differ and now == fp0[kindname]:
            if (hash(a) - hash(b)) % P61 == 0:
                fails.append(Fail('C16:fingerprint:mod-p-residue', f'{hist}: hash({a!r}) and hash({b!r}) differ by a multiple of 2**61-1 and the '
                                  f'{kindname} fingerprint is the same', 'different fingerprint', now))
            else:
                who = 'Table.fingerprint' if kindname == 'table' else 'Vector.fingerprint'
                fails.append(Fail(f'C16:{who}:blind-to-str-change',
                                  f'{hist}: element {i} changed from {a!r} to {b!r} (hash() {hash(a)} -> {hash(b)}), the {kindname} fingerprint is '
                                  f'unchanged - also for freshly built objects, i.e. the fingerprint function cannot tell the two strings apart',
                                  'different fingerprint', now))
        m = _truthful(x)
        if m:
            fails.append(Fail(f'C03:{path}:truthful', f'{hist}: {m}'))
    return fails


def nontrivial(case):
    if 'sens' in case:
        return ('sens', tuple(case['sens']), case['path'])
    if 'hist' not in case:
        return ('order', repr(case))
    kinds = [_opname(s, case.get('opn'))[1] for s in case['hist']]
    if 'write' in kinds:
        return (case['setup'],) + tuple(_opname(s, case.get('opn'))[0] for s in case['hist'])
    return None


def cases(tier, seed):
    yield from _history_cases(tier, seed)
    yield from _sens_cases(tier)
    # order matters: permutations of unequal elements / columns / rows have different fingerprints
    for p in itertools.permutations([1, 2, 3]):
        for q in itertools.permutations([1, 2, 3]):
            if p < q:
                yield {'order': [list(p), list(q)]}
    yield {'order-table': 'columns'}
    yield {'order-table': 'rows'}


def evaluate(case):
    if 'sens' in case:
        try:
            return _sens_evaluate(case)
        except Exception as e:
            return [Fail('C16:harness:sens:oracle-crash', f'{type(e).__name__}: {e}')]
    if 'order' in case:
        p, q = case['order']
        try:
            a, b = Vector(p).fingerprint(), Vector(q).fingerprint()
        except Exception as e:
            return [Fail('C16:Vector.fingerprint:raised', f'{type(e).__name__}: {e}')]
        if a == b:
            return [Fail('C16:Vector.fingerprint:order-insensitive', f'Vector({p}).fingerprint() == Vector({q}).fingerprint()', 'different', a)]
        return []
    if 'order-table' in case:
        try:
            if case['order-table'] == 'columns':
                a = Table({'a': [1, 2], 'b': [3, 4]}).fingerprint()
                b = Table({'a': [3, 4], 'b': [1, 2]}).fingerprint()
            else:
                a = Table({'a': [1, 2], 'b': [3, 4]}).fingerprint()
                b = Table({'a': [2, 1], 'b': [4, 3]}).fingerprint()
        except Exception as e:
            return [Fail('C16:Table.fingerprint:raised', f'{type(e).__name__}: {e}')]
        if a == b:
            return [Fail(f'C16:Table.fingerprint:{case["order-table"]}-order-insensitive', 'tables with permuted cells have one fingerprint', 'different', a)]
        return []
    return _history_evaluate(case)


if __name__ == '__main__':
    main('C16', cases, evaluate,
         rule='4 setups (free vector + table <= 3x3 + live column handle) x every history over a 43-statement alphabet '
              '(3 explicit fingerprint() calls, 8 reads, 13 vector write forms, 19 table write forms incl. live / held column '
              'handle, cell, row, column, region, attribute and indexed-attribute replacement, rename, donor vector) up to the '
              'stated length, plus a core 15-statement alphabet one step longer; family B: every position of the vector / held '
              'column / every table cell x 12-value pool (equal, unequal, equal-hash pairs, 2**61-1 residue pair) with and '
              'without cached fingerprints; family P: promotion by write of every ladder step (bool->int/float/complex, int->float/'
              'complex, float->complex, date->datetime, nullable date) through 6 vector and 18 table write paths x cache pre-states x '
              'column/table fingerprint() after the write; family I: every one of the 32 write paths between two table-level '
              'fingerprint() calls with a column-level call (held handle, fresh lookup, last column, all columns) after the write, 4 cache '
              'pre-states, plus two-write variants; permutation (order) family; family S: every ordered pair of 42 strings (collisions of base-31/33/37/131/256/65599 '
              'polynomial, additive, xor, case-/whitespace-/prefix-/length-only hashes, and ordinary pairs) written one over the other through 4 write paths: '
              'fingerprints of vector, column and table must change whenever hash() differs. Monitor runs only after the last statement (every '
              'prefix is a case) so caches are filled only by the history itself. distinct = distinct (setup, op sequence) with a write',
         bound=lambda tier: {'max_steps_full': 2 if tier == 'quick' else 3, 'max_steps_core': 3 if tier == 'quick' else 4,
                             'setups': len(SETUPS), 'pool': len(POOL), 'max_shape': '3x3', 'ladder_setups': len(LADDER_SETUPS),
                             'interleaving_two_write_setups': 1 if tier == 'quick' else 3, 'str_pool': len(STR_POOL), 'str_write_paths': S_PATHS,
                             'str_positions_x_cache_modes': 'rotating' if tier == 'quick' else '3 x 2'},
         nontrivial=nontrivial)

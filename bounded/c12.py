"""C12 bounded stand-in: aggregate() = one row per distinct key tuple in first-appearance order, key
columns first, textbook reducers over each group's non-None values; apply called once per group
with the group's values (None included) in row order; whole-column reductions agree with
aggregating the column as a single group.

Oracle: rows grouped by hand (list scan, tuple equality - None is a key like any other) and the
reducers of relational_common.textbook.  Output columns are located by their documented names
('<column>_<sum|mean|min|max|count|stdev>', the apply dict key); key columns by position (first).
Floats compared with 1e-9 tolerance.
Scope: agg_blocks(tier) plus every vector of length 1..4 over the value pools for the whole-column
clause.  agg_blocks includes (relational_common.extra_agg_blocks): keys that differ but collide in
hash (-1 / -2, 0 / 2**61-1; alone and inside a composite key), over=[] (zero partition keys: the
whole table is one group), bool and all-None value columns - there the dtype of every result column
is compared with what Vector(<values>) infers (sum / count of a bool column: int column) - and
groups of exactly one row.
Histories (op 'repeat'): aggregate() is called repeatedly on ONE table object with different
external key vectors that are created and dropped between the calls, and by a key (value) column
that is overwritten through its live view between the calls: every call must reflect the keys of
its own moment (no stale partition).
Precision (op 'precision'): stdev of values that are large relative to their spread (1e9 + {.5,1,1.5},
1790000001..3, 1e5 + {0,.05,.1}) through aggregate() and Vector.stdev() against an exact
fractions.Fraction reference at relative tolerance 1e-9.
Sequence-style apply functions (op 'seqapply'): eight custom functions that use their argument as a LIST
(len(), indexing, slicing, reversed(), two passes - e.g. a two-pass variance) on every table of <= 3 rows
(1 key), <= 2 rows (2 keys) and over=[]: each must give what it gives on the plain Python list of the
group's values (None included, row order).
Exact means (op 'exactmean'): mean of big ints (2**53+1, 2**53+3, 1), Fraction, Decimal and float
columns through aggregate(mean_over) and Vector.mean() against Python's sum/len in the element type -
exact wherever Python's `/` is exact (always for Fraction), relative 1e-12 otherwise.
Apply functions that modify their argument (op 'mutapply'): twelve functions on ONE column in one call - eight
that sort / pop / strip None from / clear / reverse / append to / overwrite the list they are given and four
that only read it - in rotating orders of the apply dict and their reverses (thorough: every rotation and
every ordered pair alone), with and without the six built-ins on the same column, the column named or passed
as a vector: every output column must hold what its function gives on a FRESH plain list of the group's values.
Equal-but-distinguishable keys (blocks 'eqkeys-*'): 0.0 / -0.0, True / 1 / 1.0, 2 / 2.0 in one or two key
columns form ONE group (== decides); the key cell shown for a group may be that of any of its rows (the
statement names no representative), group order and values as everywhere else.
Same-name value vectors (op 'samename', relational_history): two vectors that share the name 'v' but not their contents, given to
different aggregate arguments of ONE call (every ordered pair of built-ins, one built-in over the list of both, built-in + apply,
two apply entries); pairs made of the table column (by name / vector) and an external vector, two external vectors, two table
columns of one name, and derived vectors that kept the name (-t.v, t.v.fillna(0), an overwritten copy).  Each result column is the
textbook function over the vector that was PASSED to that argument; failure keys 'aggregate-same-name-vectors:<fn>:...'.
Repeat the call after a write (op 'rewrite', relational_history): aggregate, rewrite one key cell (or one value cell) in place -
through the column view, a held view, t['k'][i], one-cell slice / mask writes, table cell assignment - with ordinary and
hash-colliding old / new values (-1/-2, 0/2**61-1, -1.0/-2.0), aggregate again: oracle on the NEW contents, and aggregate / window
agreement on the rewritten table; failure keys 'aggregate-after-write:<key|value>-cell-rewritten:<how>:...'.
"""
from relational_common import *  # noqa
from relational_history import *  # noqa

PID = 'C12'
OP = 'aggregate'

WHOLE_POOLS = [('num', [None, 1, 2.5]), ('int', [None, 0, 1, 2])]
REDUCERS = ['sum', 'mean', 'min', 'max', 'stdev']


def cases(tier, seed):
    yield from agg_cases(tier, OP, heavy=False)
    yield from repeat_cases(tier, OP)
    yield from precision_cases(tier)
    yield from seq_apply_cases(tier, OP)
    yield from exactmean_cases(tier)
    yield from mut_apply_cases(tier, OP)
    yield from samename_cases(tier, OP)
    yield from rewrite_cases(tier, OP)
    for label, pool in WHOLE_POOLS:
        for n in range(1, 5):
            for combo in itertools.product(pool, repeat=n):
                if any(v is not None for v in combo):
                    yield {'op': 'whole', 'pool': label, 'vals': list(combo)}


def check_groups(pid, op, res, setup, fails, descr):
    """Shared with C13?  No: aggregate-specific (one row per group)."""
    case = setup.case
    order, grows = group_by_hand(setup.keys)
    nk = setup.nk
    want_cols = nk + len(case['aggs']) + (1 if case['apply'] else 0)
    m = truthful(res)
    if m:
        fails.append(Fail(f'C03:{op}:truthful', f'{descr}: {m}', None, m))
    ncols = len(res.cols())
    if ncols != want_cols:
        fails.append(Fail(f'{pid}:{op}:column-count', f'{descr}: {ncols} columns, expected {nk} key columns + one per aggregate',
                          want_cols, list(res.column_names())))
        return
    if len(res) != len(order):
        got_keys = [tuple(list(c._underlying)[i] for c in res.cols()[:nk]) for i in range(len(res))] if ncols else []
        fails.append(Fail(f'{pid}:{op}:group-count', f'{descr}: {len(res)} rows for {len(order)} distinct key tuples',
                          order, got_keys, f'{pid}:{op}:post'))
        return
    # key columns first, one row per distinct key tuple, first-appearance order
    got_keys = [tuple(list(c._underlying)[i] for c in res.cols()[:nk]) for i in range(len(res))]
    if 'eqkeys' in case.get('block', ''):
        # equal-but-distinguishable key cells: any row of the group may lend its cell (per key column)
        for g, rows in enumerate(grows):
            ok = got_keys[g] == order[g] and all(cell_id(got_keys[g][j]) in [cell_id(setup.keys[i][j]) for i in rows] for j in range(nk))
            if not ok:
                cls = 'group-order' if sorted(map(repr, got_keys)) == sorted(map(repr, order)) else 'key-columns'
                fails.append(Fail(f'{pid}:{op}:{cls}', f'{descr}: row {g} of the result shows key {got_keys[g]!r}; the group in first-appearance '
                                                        f'position {g} has the key cells {[setup.keys[i] for i in rows]!r}', order, got_keys, f'{pid}:{op}:post'))
                return
    elif not rows_same(got_keys, order):
        if Counter(map(rkey, got_keys)) == Counter(map(rkey, order)):
            cls = 'group-order'
        else:
            cls = 'key-columns'
        fails.append(Fail(f'{pid}:{op}:{cls}', f'{descr}: key columns (first {nk} columns) differ from the distinct key tuples in '
                                                f'first-appearance order', order, got_keys, f'{pid}:{op}:post'))
        return
    for agg in case['aggs']:
        col = out_column(res, f'v_{agg}')
        if col is None:
            fails.append(Fail(f'{pid}:{op}:{agg}:missing-column', f'{descr}: no output column v_{agg}', f'v_{agg}',
                              list(res.column_names())))
            continue
        want = [textbook(agg, [setup.vals[i] for i in rows]) for rows in grows]
        if not (len(col) == len(want) and all(close(a, b) for a, b in zip(col, want))):
            empty = any(all(setup.vals[i] is None for i in rows) for rows in grows)
            bad_on_empty = all(close(a, b) for (a, b, rows) in zip(col, want, grows)
                               if not all(setup.vals[i] is None for i in rows))
            cls = 'empty-group' if empty and bad_on_empty else 'value'
            fails.append(Fail(f'{pid}:{op}:{agg}:{cls}', f'{descr}: v_{agg} differs from the textbook {agg} of each group\'s non-None values',
                              want, col, f'{pid}:{op}:{agg}:elem'))
        elif case.get('dtypes'):
            check_result_dtype(pid, op, agg, named_column(res, f'v_{agg}'), want, fails, descr)
    if case['apply']:
        gvals = [[setup.vals[i] for i in rows] for rows in grows]
        col = out_column(res, 'rec')
        want = [apply_value(v) for v in gvals]
        if col is None:
            fails.append(Fail(f'{pid}:{op}:apply:missing-column', f'{descr}: no output column named after the apply key', 'rec',
                              list(res.column_names())))
        elif col != want:
            fails.append(Fail(f'{pid}:{op}:apply:value', f'{descr}: apply column does not hold f(group values in row order)', want, col,
                              f'{pid}:{op}:apply'))
        if Counter(map(repr, setup.log)) != Counter(map(repr, gvals)):
            cls = 'call-count' if len(setup.log) != len(gvals) else 'call-arguments'
            fails.append(Fail(f'{pid}:{op}:apply:{cls}', f'{descr}: apply must be called exactly once per group with that group\'s values '
                                                          f'(None included) in row order', gvals, setup.log, f'{pid}:{op}:apply'))


def agg_descr(case, op):
    return (f"{op}(over={case['mode']} x{case['nk']}, aggs={case['aggs']}, apply={case['apply']}) on rows(keys..., v)={case['rows']}")


def eval_whole(case):
    fails = []
    vals = case['vals']
    descr = f'Vector({vals!r})'
    v = Vector(list(vals), name='v')
    t = Table([Vector([0] * len(vals), name='g'), Vector(list(vals), name='v')])
    try:
        res = t.aggregate(over='g', sum_over='v', mean_over='v', min_over='v', max_over='v', stdev_over='v')
    except Exception as e:
        return [Fail(f'{PID}:aggregate:raises:{type(e).__name__}', f'{descr} aggregated as one group raised {e!r}', None, repr(e))]
    for red in REDUCERS:
        col = out_column(res, f'v_{red}')
        agg_val = col[0] if col else None
        want = textbook(red, vals)
        if col is None or len(col) != 1 or not close(agg_val, want):
            fails.append(Fail(f'{PID}:aggregate:{red}:value', f'{descr} as a single group: v_{red} = {col!r}, textbook {want!r}', want, col))
        try:
            got = getattr(v, red)()
        except Exception as e:
            has_none = any(x is None for x in vals)
            fails.append(Fail(f'{PID}:Vector.{red}:whole-column:raises' + (':none-present' if has_none else ''),
                              f'{descr}.{red}() raised {e!r}; aggregating the column as a single group gives {agg_val!r}',
                              want, repr(e), f'{PID}:lemma:whole-column'))
            continue
        if not close(got, want) or not close(got, agg_val):
            fails.append(Fail(f'{PID}:Vector.{red}:whole-column:disagrees',
                              f'{descr}.{red}() = {got!r}; aggregate as a single group = {agg_val!r}; textbook = {want!r}',
                              want, got, f'{PID}:lemma:whole-column'))
    m = truthful(res)
    if m:
        fails.append(Fail(f'C03:{OP}:truthful', f'{descr}: {m}', None, m))
    return fails


def eval_precision(case):
    fails = []
    vals = case['vals']
    keys, grows = precision_groups(case)
    descr = f"stdev of {vals!r} ({case['family']}, {case['layout']})"
    want = [exact_stdev([vals[i] for i in rows]) for rows in grows]
    try:
        t = Table([Vector(list(keys), name='g'), Vector(list(vals), name='v')])
        v = Vector(list(vals), name='v')
    except Exception as e:
        return [Fail(f'{PID}:setup:raises:{type(e).__name__}', f'{descr}: building the operands raised {e!r}', None, repr(e))]
    try:
        res = t.aggregate(over='g', stdev_over='v')
        col = out_column(res, 'v_stdev')
        m = truthful(res)
        if m:
            fails.append(Fail(f'C03:{OP}:truthful', f'{descr}: {m}', None, m))
        if col is None or len(col) != len(want) or not all(precise(a, b, vals) for a, b in zip(col, want)):
            fails.append(Fail(f'{PID}:{OP}:stdev:precision', f'{descr}: aggregate(stdev_over) = {col!r}; exact sample standard deviation '
                                                              f'per group = {want!r} (relative tolerance {REL_TOL})', want, col, f'{PID}:{OP}:stdev:elem'))
    except Exception as e:
        fails.append(Fail(f'{PID}:{OP}:stdev:precision-raises', f'{descr}: aggregate(stdev_over) raised {e!r}', want, repr(e), f'{PID}:{OP}:stdev:elem'))
    whole = exact_stdev(vals)
    try:
        got = v.stdev()
        if not precise(got, whole, vals):
            fails.append(Fail(f'{PID}:Vector.stdev:precision', f'Vector({vals!r}).stdev() = {got!r}; exact sample standard deviation = {whole!r} '
                                                                f'(relative tolerance {REL_TOL})', whole, got, f'{PID}:lemma:whole-column'))
    except Exception as e:
        fails.append(Fail(f'{PID}:Vector.stdev:precision-raises', f'Vector({vals!r}).stdev() raised {e!r}', whole, repr(e), f'{PID}:lemma:whole-column'))
    return fails


def eval_seqapply(case):
    descr = f"aggregate(over={case['mode']} x{case['nk']}, apply=<functions that use their argument as a list>) on rows(keys..., v)={case['rows']}"
    try:
        s = SeqApplySetup(case)
    except Exception as e:
        return [Fail(f'{PID}:setup:raises:{type(e).__name__}', f'{descr}: building the table raised {e!r}', None, repr(e))]
    before = s.snapshot()
    site = agg_site(OP, case)
    fails = []
    try:
        res = s.T.aggregate(s.over, **s.kwargs)
    except Exception as e:
        name = s.running[0]
        cap = SEQ_APPLY[name][1] if name else 'outside-the-function'
        return [Fail(f'{PID}:{site}:apply-sequence-argument:{cap}:raises:{type(e).__name__}',
                     f'{descr}: raised {e!r}' + (f' while apply function {name!r} was using its argument as a list ({cap})' if name else ''),
                     seq_apply_expected(OP, s.keys, s.vals), repr(e), f'{PID}:{OP}:apply')]
    try:
        m = truthful(res)
        if m:
            fails.append(Fail(f'C03:{OP}:truthful', f'{descr}: {m}', None, m))
        check_seq_apply(PID, OP, site, res, seq_apply_expected(OP, s.keys, s.vals), fails, descr)
    except Exception as e:
        fails.append(Fail(f'{PID}:{site}:malformed-result', f'{descr}: result could not be read: {e!r}', None, repr(e)))
    if s.snapshot() != before:
        fails.append(Fail(f'{PID}:{site}:input-modified', f'{descr}: the table or a key vector changed', before, s.snapshot()))
    return fails


def eval_exactmean(case):
    fails = []
    fam = case['family']
    vals = exactmean_vals(case)
    keys, grows = exactmean_groups(case)
    descr = f"mean of {vals!r} ({fam}, {case['layout']})"
    try:
        t = Table([Vector(list(keys), name='g'), Vector(list(vals), name='v')])
        v = Vector(list(vals), name='v')
    except Exception as e:
        if all(x is None for x in vals):
            return []
        return [Fail(f'{PID}:setup:raises:{type(e).__name__}', f'{descr}: building the operands raised {e!r}', None, repr(e))]
    try:
        res = t.aggregate(over='g', mean_over='v')
        col = out_column(res, 'v_mean')
        m = truthful(res)
        if m:
            fails.append(Fail(f'C03:{OP}:truthful', f'{descr}: {m}', None, m))
        if col is None or len(col) != len(grows):
            fails.append(Fail(f'{PID}:{OP}:mean:{fam}:missing', f'{descr}: aggregate(mean_over) gave column {col!r}', len(grows), col))
        else:
            for g, rows in enumerate(grows):
                bad = mean_verdict(fam, col[g], [vals[i] for i in rows])
                if bad:
                    fails.append(Fail(f'{PID}:{OP}:mean:{fam}:{bad[0]}', f'{descr}: aggregate(mean_over) gives {col[g]!r} for the group '
                                      f'{[vals[i] for i in rows]!r}; sum/len of its non-None values is {bad[1]!r}', bad[1], col[g], f'{PID}:{OP}:mean:elem'))
                    break
    except Exception as e:
        fails.append(Fail(f'{PID}:{OP}:mean:{fam}:raises:{type(e).__name__}', f'{descr}: aggregate(mean_over) raised {e!r}', None, repr(e), f'{PID}:{OP}:mean:elem'))
    if any(x is not None for x in vals):
        try:
            got = v.mean()
            bad = mean_verdict(fam, got, vals)
            if bad:
                fails.append(Fail(f'{PID}:Vector.mean:{fam}:{bad[0]}', f'Vector({vals!r}).mean() = {got!r}; sum/len of the non-None values is {bad[1]!r}',
                                  bad[1], got, f'{PID}:lemma:whole-column'))
        except Exception as e:
            fails.append(Fail(f'{PID}:Vector.mean:{fam}:raises:{type(e).__name__}', f'Vector({vals!r}).mean() raised {e!r}', python_mean(vals), repr(e),
                              f'{PID}:lemma:whole-column'))
    return fails


def evaluate(case):
    if case['op'] == 'whole':
        return eval_whole(case)
    if case['op'] == 'seqapply':
        return eval_seqapply(case)
    if case['op'] == 'exactmean':
        return eval_exactmean(case)
    if case['op'] == 'mutapply':
        return eval_mutapply(PID, case)
    if case['op'] == 'repeat':
        return eval_repeat(PID, case)
    if case['op'] == 'samename':
        return eval_samename(PID, case)
    if case['op'] == 'rewrite':
        return eval_rewrite(PID, case)
    if case['op'] == 'precision':
        return eval_precision(case)
    descr = agg_descr(case, OP)
    try:
        s = AggSetup(case)
    except Exception as e:
        return [Fail(f'{PID}:setup:raises:{type(e).__name__}', f'{descr}: building the table raised {e!r}', None, repr(e))]
    before = s.snapshot()
    fails = []
    site = agg_site(OP, case)
    try:
        res = s.T.aggregate(s.over, **s.kwargs)
    except Exception as e:
        return [Fail(f'{PID}:{site}:raises:{type(e).__name__}', f'{descr}: raised {e!r}', None, repr(e), f'{PID}:{OP}:post')]
    try:
        check_groups(PID, site, res, s, fails, descr)
    except Exception as e:      # a malformed result must become a failure, not a harness crash
        fails.append(Fail(f'{PID}:{site}:malformed-result', f'{descr}: result could not be read: {e!r}', None, repr(e)))
    if s.snapshot() != before:
        fails.append(Fail(f'{PID}:{site}:input-modified', f'{descr}: the table or a key vector changed', before, s.snapshot()))
    return fails


def nontrivial(case):
    if case.get('op') in ('samename', 'rewrite'):
        return history_signature(case)
    return agg_signature(case)


if __name__ == '__main__':
    main(PID, cases, evaluate,
         rule='every table of each block in `bound` (rows = key tuple + value), keys by name / column vector / external vector '
              '(rotating with the table index), built-in sets as per the block plan, apply recording its calls; compared with '
              'hand grouping + textbook reducers (1e-9); plus Vector.sum/mean/min/max/stdev vs single-group aggregate for every '
              'vector of length 1..4 over {None,1,2.5} and {None,0,1,2} with >=1 non-None; plus call histories on one table object '
              '(new external key vectors / key or value column overwritten through its live view between calls; every ordered '
              'pair of distinct 3-row key vectors and long runs) and stdev of large-offset values vs an exact Fraction reference '
              '(relative 1e-9); plus eight apply functions that use their argument as a list (len / index / slice / reversed / two passes) on '
              'every small table, and mean of big-int / Fraction / Decimal / float columns vs Python sum/len in the element type (exact where '
              '`/` is exact, else relative 1e-12) through aggregate and Vector.mean; plus twelve apply functions on one column, eight of which modify their argument, in rotating dict '
              'orders with / without the built-ins (each vs the function on a fresh list), and keys that are equal but distinguishable '
              '(0.0/-0.0, True/1/1.0, 2/2.0). plus two same-named vectors with different contents in one call (each result column vs the oracle on the vector passed) and '
              'call / in-place cell write (hash-colliding values included) / call again histories vs the oracle on the new contents. distinct = distinct (nk, mode, rows, '
              'groups, interleaved, all-None group, None key, aggs, apply) signatures',
         bound=lambda tier: dict(agg_bound(tier), whole_column_pools=[p for _, p in WHOLE_POOLS], whole_column_max_len=4,
                                 repeat_variants=REPEAT_VARIANTS, repeat_key_vectors='{None,0,1}^3 ordered pairs; runs over ^3 and ^4',
                                 precision_families=[f for f, _ in PRECISION_FAMILIES], precision_len=[2, 4 if tier == 'quick' else 5],
                                 seq_apply_functions=SEQ_APPLY_NAMES, seq_apply_tables='1 key <=%d rows, 2 keys <=%d rows, over=[] <=%d rows' % ((3, 2, 3) if tier == 'quick' else (4, 3, 4)),
                                 exact_mean_families={f: [repr(x) for x in p] for f, p in EXACT_MEAN_FAMILIES}, exact_mean_len=[1, 3 if tier == 'quick' else 4],
                                 mutating_apply_functions=MUT_APPLY_NAMES, same_name_vector_pairs=SAMENAME_HOWS, same_name_plans=len(SAMENAME_PLANS),
                                 rewrite_writes=REWRITE_HOWS, rewrite_key_pairs=[p[0] for p in REWRITE_KEY_PAIRS], rewrite_value_pairs=[p[0] for p in REWRITE_VAL_PAIRS],
                                 mutating_apply_orders='2 rotations + reverses per table' if tier == 'quick' else 'all 12 rotations + reverses; every ordered pair alone'),
         nontrivial=nontrivial)

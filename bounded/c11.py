"""C11 bounded stand-in: join cardinality expectations are enforced exactly.

Decision table: join kind {inner_join, join, full_join} x expect {'one_to_one', 'many_to_one',
'one_to_many', 'many_to_many', invalid values, and the DEFAULT (argument omitted)} x every left key
sequence x every right key sequence of the stated sizes (so duplicates occur among matched rows,
among unmatched rows only, among None keys, on either / both / no side, zero-row sides).

Oracle (from the statement):
  need_left_unique(expect)  = expect in {'one_to_one', 'one_to_many'}
  need_right_unique(expect) = expect in {'one_to_one', 'many_to_one'}
  raises SerifValueError  <=>  expect is not one of the four values
                               or need_right_unique and some right key tuple repeats
                               or need_left_unique  and some left  key tuple repeats
  otherwise the result is identical (names, values, dtypes) to the expect='many_to_many' result.
The default is read from the signature (inspect) and must behave exactly as that value.

Additional input families (same oracle; the failure key gets a suffix naming the family):
  * hash-colliding keys: int keys that differ but have equal Python hashes (-1 / -2, 0 / 2**61-1),
    alone and as components of a two-column key - such keys are UNIQUE, so no uniqueness
    expectation may fail because of them (suffix ':hash-colliding-keys');
  * filtered-empty sides: a zero-row left (right) table that still has its typed columns, built by
    filtering every row out of a one-row table (all-False mask, [0:0] slice), against every key
    sequence - in particular duplicate keys - on the other side (suffix ':filtered-empty-side').
  * near-miss expect values (NEAR_MISS): a valid value with trailing / leading whitespace or a newline,
    with a suffix / prefix ('one_to_ones', 'many_to_many_strict'), in another case ('ONE_TO_ONE'), '',
    proper substrings ('one_to', 'many', '_'), other separators, and non-strings (5, True, a list /
    tuple / bytes holding a valid value): every one is "any other value" and must be rejected with
    SerifValueError (non-strings: with any exception) by all three joins WHATEVER the keys - every key
    pair of <= 2 rows per side gets every value, the 3-row pairs get three values each in rotation
    (key class '<cell>-near-miss-<family>-expect' / '<cell>-non-string-expect').
  * expect values BUILT AT RUN TIME (FRESH_HOWS): each of the four values as a str object that is equal to, but
    not the same object as, the source literal - ''.join(chars), .upper().lower(), an f-string of its halves,
    decoded from bytes (what a value read from a config file / JSON / the command line is).  It is that value:
    same decision table, same result (key class '<cell>-<value>-built-at-run-time-expect'); every key pair of
    <= 2 rows per side gets every construction, the 3-row pairs one construction per (join, value) in rotation.
  * several DISTINCT duplicated keys on the side that must be unique ('several-duplicated-keys'): key columns
    holding two different keys twice each (every arrangement; thorough: plus a fifth row) over None / ints,
    None / strs, None / dates, an object column mixing ints, strs and None, and two-column keys whose components
    include None - keys Python cannot order among themselves.  The side that repeats is the right, the left or
    both; the other side is empty, partly matching or holds every key once.  The exception must be
    SerifValueError exactly when a required uniqueness fails (never a TypeError from handling the duplicates).
"""
import inspect

from relational_common import *  # noqa

PID = 'C11'
JOINS = ['inner_join', 'join', 'full_join']
VALID = ['one_to_one', 'many_to_one', 'one_to_many', 'many_to_many']
# label -> how the argument is passed.  'default' omits it.
INVALID_MAIN = ['bogus']
INVALID_MORE = ['', 'MANY_TO_MANY', 'many-to-many', 'None']     # 'None' = the object None


# label -> value.  'nm:<family>:<n>' are strings that are NOT one of the four values, 'ns:<what>' non-strings.
NEAR_MISS = {
    'nm:whitespace:0': 'one_to_one ', 'nm:whitespace:1': ' many_to_one', 'nm:whitespace:2': 'many_to_one\n', 'nm:whitespace:3': 'one_to_many\t',
    'nm:whitespace:4': ' many_to_many ',
    'nm:affix:0': 'one_to_ones', 'nm:affix:1': 'many_to_many_strict', 'nm:affix:2': 'xmany_to_one', 'nm:affix:3': 'one_to_many_',
    'nm:case:0': 'ONE_TO_ONE', 'nm:case:1': 'Many_To_One', 'nm:case:2': 'one_to_Many',
    'nm:empty:0': '',
    'nm:substring:0': 'one_to', 'nm:substring:1': 'many', 'nm:substring:2': '_', 'nm:substring:3': 'to_one',
    'nm:separator:0': 'one-to-one', 'nm:separator:1': 'many to one', 'nm:separator:2': 'one_to_one,many_to_many', 'nm:separator:3': 'one__to__one',
    'ns:int': 5, 'ns:true': True, 'ns:list': ['one_to_one'], 'ns:tuple': ('many_to_many',), 'ns:bytes': b'many_to_many',
}
NEAR_LABELS = list(NEAR_MISS)
assert not any(isinstance(v, str) and v in VALID for v in NEAR_MISS.values())


# how -> constructor of a str equal to the literal but a distinct (never interned) object
FRESH_HOWS = {
    'join': lambda v: ''.join(list(v)),
    'lower': lambda v: v.upper().lower(),
    'fstring': lambda v: f"{v.split('_to_')[0]}_to_{v.split('_to_')[1]}",
    'decode': lambda v: str(v.encode('ascii'), 'ascii'),
}
FRESH_LABELS = [f'fresh:{how}:{v}' for v in VALID for how in FRESH_HOWS]

KIND_TYPE.setdefault('objkey', object)                     # an object key column mixing ints and strs (and None)
KIND_POOL.setdefault('objkey', {0: 1, 1: 'a', 2: 2, 3: 'b'})


def label_class(label):
    if label in VALID or label == 'default':
        return label
    if label.startswith('fresh:'):
        return label.split(':')[2] + '-built-at-run-time'
    if label.startswith('nm:'):
        return 'near-miss-' + label.split(':')[1]
    if label.startswith('ns:'):
        return 'non-string'
    return 'invalid'


def near_miss_cases(tier):
    pool = [0, 1, None]
    hi = 3 if tier == 'quick' else 4
    seqs_ = [list(c) for n in range(0, hi + 1) for c in itertools.product(pool, repeat=n)]
    idx = 0
    for lk in seqs_:
        for rk in seqs_:
            idx += 1
            if len(lk) <= 2 and len(rk) <= 2:
                labels = NEAR_LABELS
            else:
                labels = [NEAR_LABELS[(3 * idx + d) % len(NEAR_LABELS)] for d in range(3)]
            for kind in JOINS:
                for label in labels:
                    yield {'op': kind, 'expect': label, 'kind': 'int', 'lk': lk, 'rk': rk}


def expect_value(label, kind):
    """(is_passed, value) for a label."""
    if label.startswith('fresh:'):
        _, how, v = label.split(':')
        return True, FRESH_HOWS[how](v)
    if label in NEAR_MISS:
        return True, NEAR_MISS[label]
    if label == 'default':
        return False, inspect.signature(getattr(Table, kind)).parameters['expect'].default
    if label == 'None':
        return True, None
    return True, label


def cases(tier, seed):
    if tier == 'quick':
        blocks = [('int', [0, 1, None], 3, 3)]
    else:
        blocks = [('int', [0, 1, 2, None], 3, 3), ('int', [0, 1, None], 4, 3), ('int', [0, 1, None], 3, 4),
                  ('str', [0, 1, None], 3, 3)]
    seen_pairs = set()
    for kd, pool, ml, mr in blocks:
        lseqs = [list(c) for n in range(0, ml + 1) for c in itertools.product(pool, repeat=n)]
        rseqs = [list(c) for n in range(0, mr + 1) for c in itertools.product(pool, repeat=n)]
        idx = 0
        for lk in lseqs:
            for rk in rseqs:
                idx += 1
                tag = (kd, tuple(lk), tuple(rk))
                if tag in seen_pairs:          # membership only: no iteration over the set
                    continue
                seen_pairs.add(tag)
                for kind in JOINS:
                    labels = VALID + ['default'] + INVALID_MAIN
                    if idx % (7 if tier == 'quick' else 5) == 0:
                        labels = labels + INVALID_MORE
                    for label in labels:
                        yield {'op': kind, 'expect': label, 'kind': kd, 'lk': lk, 'rk': rk}
    yield from extra_cases(tier)
    yield from near_miss_cases(tier)
    yield from fresh_expect_cases(tier)
    yield from several_dup_cases(tier)


def fresh_expect_cases(tier):
    """The decision table once more with every valid expect value passed as a freshly built str object: key pairs
    of <= 1 row per side get every (value, construction), pairs of <= 2 rows every value with one construction,
    larger pairs one (value, construction) per join - all in rotation with the pair index."""
    pool = [0, 1, None]
    hi = 3 if tier == 'quick' else 4
    seqs_ = _all_seqs(pool, hi)
    hows = list(FRESH_HOWS)
    idx = 0
    for lk in seqs_:
        for rk in seqs_:
            idx += 1
            size = max(len(lk), len(rk))
            for ki, kind in enumerate(JOINS):
                if size <= 1:
                    combos = [(v, how) for v in VALID for how in hows]
                elif size <= 2:
                    combos = [(v, hows[(idx + ki + vi) % len(hows)]) for vi, v in enumerate(VALID)]
                else:
                    combos = [(VALID[(idx + ki) % len(VALID)], hows[(idx // len(VALID) + ki) % len(hows)])]
                for v, how in combos:
                    yield {'op': kind, 'expect': f'fresh:{how}:{v}', 'kind': 'int', 'lk': lk, 'rk': rk}


def _several_dup_seqs(pool, n):
    """Sequences of length n over pool in which at least two DIFFERENT values occur at least twice."""
    return [list(c) for c in itertools.product(pool, repeat=n)
            if sum(1 for v in pool if list(c).count(v) >= 2) >= 2]


_OBJ_INTS, _OBJ_STRS = (0, 2), (1, 3)          # patterns of KIND_POOL['objkey'] that are ints / strs


def _obj_mixed(seq):
    """An 'objkey' column is an object column only if it holds an int AND a str (serif infers the dtype)."""
    return not seq or (any(p in _OBJ_INTS for p in seq) and any(p in _OBJ_STRS for p in seq))


def several_dup_cases(tier):
    q = tier == 'quick'
    labels = VALID + ['default']
    single = [('int', [None, 0, 1, 2]), ('objkey', [None, 0, 1, 2, 3])] + ([] if q else [('str', [None, 0, 1, 2]), ('date', [None, 0, 1, 2])])
    comp = [(['int', 'int'], [[0, None], [0, 0], [None, 0], [0, 1]])] + \
           ([] if q else [(['str', 'int'], [[0, None], [0, 0], [None, 0], [1, 0]]), (['int', 'int'], [[0, None], [0, 0], [1, None], [None, None]])])
    for kinds, pool in [([k], p) for k, p in single] + comp:
        composite = len(kinds) > 1
        obj = kinds == ['objkey']
        dups = _several_dup_seqs(pool, 4)
        if obj:
            # None next to ints and strs needs a fifth row
            dups = dups + [d for d in _several_dup_seqs([None, 0, 1], 5) if None in d][::(4 if q else 1)]
        elif not q:
            dups = dups + _several_dup_seqs(pool[:3], 5)
        for seq in dups:
            present = [v for v in pool if v in seq]
            absent = [v for v in pool if v not in seq]
            partial = [present[-1]] + absent[:1]
            if obj and not _obj_mixed(partial):
                partial.append(next(p for p in (_OBJ_STRS if partial[0] in _OBJ_INTS or partial[0] is None and partial[-1] in _OBJ_INTS else _OBJ_INTS)
                                    if p not in partial))
            others = [[], partial, list(pool)]
            pairs = [(o, seq) for o in others] + [(seq, o) for o in others[1:]] + [(seq, seq)]
            for lk, rk in pairs:
                if obj and not (_obj_mixed(lk) and _obj_mixed(rk)):
                    continue
                for kind in JOINS:
                    for label in labels:
                        case = {'op': kind, 'expect': label, 'kind': '+'.join(kinds), 'lk': lk, 'rk': rk, 'family': 'several-duplicated-keys'}
                        if composite:
                            case['kinds'] = kinds
                        yield case


def _all_seqs(pool, hi):
    return [list(c) for n in range(0, hi + 1) for c in itertools.product(pool, repeat=n)]


def extra_cases(tier):
    labels = VALID + ['default'] + INVALID_MAIN
    # ---- keys that differ but collide in hash: single key ----
    hi = 3 if tier == 'quick' else 4
    for kd in HC_KINDS:
        pool = [0, 1] if tier == 'quick' else [0, 1, None]
        seqs_ = _all_seqs(pool, hi if len(pool) == 2 else 3)
        for lk in seqs_:
            for rk in seqs_:
                for kind in JOINS:
                    for label in labels:
                        yield {'op': kind, 'expect': label, 'kind': kd, 'lk': lk, 'rk': rk, 'family': 'hash-colliding-keys'}
    # ---- ... and as components of a composite key ----
    comp = [(['ihc1', 'ihc2'], [[0, 0], [1, 0], [0, 1]], 2)] if tier == 'quick' else \
           [(['ihc1', 'ihc2'], [[0, 0], [1, 0], [0, 1], [1, 1]], 3), (['ihc2', 'str'], [[0, 0], [1, 0], [0, 1]], 3)]
    for kinds, pool, hi2 in comp:
        seqs_ = [[list(k) for k in c] for n in range(0, hi2 + 1) for c in itertools.product(pool, repeat=n)]
        for lk in seqs_:
            for rk in seqs_:
                for kind in JOINS:
                    for label in labels:
                        yield {'op': kind, 'expect': label, 'kind': '+'.join(kinds), 'kinds': kinds, 'lk': lk, 'rk': rk,
                               'family': 'hash-colliding-keys'}
    # ---- zero-row side that still has (typed) columns, every key sequence on the other side ----
    blocks = [('int', [0, 1, None], 3)] if tier == 'quick' else [('int', [0, 1, None], 4), ('str', [0, 1, None], 3), ('ihc1', [0, 1, None], 3)]
    for kd, pool, hi3 in blocks:
        seqs_ = _all_seqs(pool, hi3)
        pairs = [([], rk) for rk in seqs_] + [(lk, []) for lk in seqs_ if lk]
        for lk, rk in pairs:
            for ector in ('mask', 'slice'):
                for kind in JOINS:
                    for label in labels + (INVALID_MORE if not lk and not rk else []):
                        yield {'op': kind, 'expect': label, 'kind': kd, 'lk': lk, 'rk': rk, 'empty_ctor': ector,
                               'family': 'filtered-empty-side'}


_LAST = [None, None, None]      # (pair tag, JoinSetup, snapshot) of the previous case


def _setup(case):
    """Tables for a case.  Consecutive cases share the key pair (only join kind / expect change),
    so the previous pair's tables are reused as long as their view() is still what it was when they
    were built (joins must not modify their operands - C09/C10 check that on every call)."""
    tag = (case['kind'], repr(case['lk']), repr(case['rk']), case.get('empty_ctor'))
    if _LAST[0] == tag and _LAST[1].snapshot() == _LAST[2]:
        return _LAST[1]
    if 'kinds' in case:       # composite key: lk / rk hold one pattern list per row
        c = {'kinds': list(case['kinds']), 'lk': [list(k) for k in case['lk']], 'rk': [list(k) for k in case['rk']]}
    else:
        c = {'kinds': [case['kind']], 'lk': [[k] for k in case['lk']], 'rk': [[k] for k in case['rk']]}
    c.update({'mode': 'name', 'names': 'same', 'pl': 1, 'pr': 1, 'bare': True})
    if case.get('empty_ctor'):
        c['empty_ctor'] = case['empty_ctor']
    s = JoinSetup(c)
    _LAST[:] = [tag, s, s.snapshot()]
    return s


def dup_info(keys):
    dups = [k for k in keys if keys.count(k) > 1]
    return bool(dups), bool(dups) and all(k is None for k in dups)


def cell_name(ldup, rdup):
    return 'both-dup' if ldup and rdup else 'left-dup' if ldup else 'right-dup' if rdup else 'no-dup'


def evaluate(case):
    kind, label = case['op'], case['expect']
    passed, value = expect_value(label, kind)
    ldup, l_none_only = dup_info(case['lk'])
    rdup, r_none_only = dup_info(case['rk'])
    cell = cell_name(ldup, rdup)
    # key = decision-table cell (join kind, which side repeats, expect); never the concrete keys
    key = f'{PID}:{kind}:{cell}-{label_class(label)}-expect'
    if case.get('family'):
        key += ':' + case['family']
    descr = (f"{kind}(left keys={case['lk']}, right keys={case['rk']}, kind={case['kind']}, "
             + (f"zero-row sides built by filtering ({case['empty_ctor']}), " if case.get('empty_ctor') else '')
             + (f'expect={value!r})' if passed else f'expect omitted -> signature default {value!r})'))
    try:
        s = _setup(case)
    except Exception as e:
        return [Fail(f'{PID}:setup:raises:{type(e).__name__}', f'{descr}: building the tables raised {e!r}', None, repr(e))]
    fn = getattr(s.L, kind)

    valid = isinstance(value, str) and value in VALID
    need_l = valid and value in ('one_to_one', 'one_to_many')
    need_r = valid and value in ('one_to_one', 'many_to_one')
    must_raise = (not valid) or (need_r and rdup) or (need_l and ldup)

    fails = []
    try:
        res = fn(s.R, s.lon, s.ron, expect=value) if passed else fn(s.R, s.lon, s.ron)
        raised = None
    except Exception as e:
        res, raised = None, e

    why = ('expect is not one of the four values' if not valid else
           ', '.join(x for x in (need_r and rdup and 'right keys must be unique but repeat',
                                 need_l and ldup and 'left keys must be unique but repeat') if x))
    if must_raise:
        if raised is None:
            fails.append(Fail(key, f'{descr}: returned a table although {why}; must raise SerifValueError',
                              'SerifValueError', rows_of(res) if res is not None else None, f'{PID}:{kind}:raises-iff'))
        elif not isinstance(raised, SerifValueError) and not label.startswith('ns:'):     # a non-string may be refused with any exception
            fails.append(Fail(key + ':wrong-exception-type', f'{descr}: raised {type(raised).__name__} instead of SerifValueError ({why})',
                              'SerifValueError', repr(raised), f'{PID}:{kind}:raises-iff'))
    else:
        # the reference result: the same call with expect='many_to_many' (never allowed to raise)
        try:
            ref = fn(s.R, s.lon, s.ron, expect='many_to_many')
        except Exception as e:
            return [Fail(f'{PID}:{kind}:many_to_many-raises:{type(e).__name__}',
                         f"{descr}: the reference call with expect='many_to_many' raised {e!r}", 'a result', repr(e))]
        if raised is not None:
            fails.append(Fail(key, f'{descr}: raised {raised!r} although the expectation holds '
                                   f'(left keys repeat: {ldup}, right keys repeat: {rdup})',
                              rows_of(ref), repr(raised), f'{PID}:{kind}:raises-iff'))
        elif view(res) != view(ref):
            fails.append(Fail(key + ':result-differs', f"{descr}: result differs from the expect='many_to_many' result",
                              view(ref), view(res), f'{PID}:{kind}:post'))
    if res is not None:
        m = truthful(res)
        if m:
            fails.append(Fail(f'C03:{kind}:truthful', f'{descr}: {m}', None, m))
    return fails


def nontrivial(case):
    ldup, ln = dup_info(case['lk'])
    rdup, rn = dup_info(case['rk'])
    lk, rk = case['lk'], case['rk']
    dup_unmatched_l = any(lk.count(k) > 1 and k not in rk for k in lk)
    dup_unmatched_r = any(rk.count(k) > 1 and k not in lk for k in rk)
    dup_matched_l = any(lk.count(k) > 1 and k in rk for k in lk)
    dup_matched_r = any(rk.count(k) > 1 and k in lk for k in rk)
    return (case['op'], case['expect'], case['kind'], ldup, rdup, ln, rn,
            dup_unmatched_l, dup_unmatched_r, dup_matched_l, dup_matched_r, len(lk) == 0, len(rk) == 0,
            case.get('family'), case.get('empty_ctor'))


def bound(tier):
    if tier == 'quick':
        b = [{'kind': 'int', 'key_values': '{None,0,1}', 'max_left_rows': 3, 'max_right_rows': 3}]
    else:
        b = [{'kind': 'int', 'key_values': '{None,0,1,2}', 'max_left_rows': 3, 'max_right_rows': 3},
             {'kind': 'int', 'key_values': '{None,0,1}', 'max_left_rows': 4, 'max_right_rows': 3},
             {'kind': 'int', 'key_values': '{None,0,1}', 'max_left_rows': 3, 'max_right_rows': 4},
             {'kind': 'str', 'key_values': "{None,'a','b'}", 'max_left_rows': 3, 'max_right_rows': 3}]
    if tier == 'quick':
        x = [{'family': 'hash-colliding-keys', 'kinds': ['ihc1 {-1,-2}', 'ihc2 {0,2**61-1}'], 'max_left_rows': 3, 'max_right_rows': 3},
             {'family': 'hash-colliding-keys', 'kinds': 'ihc1+ihc2', 'key_tuples': 3, 'max_left_rows': 2, 'max_right_rows': 2},
             {'family': 'filtered-empty-side', 'kind': 'int', 'key_values': '{None,0,1}', 'other_side_max_rows': 3,
              'zero_row_ctor': ['mask', 'slice']}]
    else:
        x = [{'family': 'hash-colliding-keys', 'kinds': ['ihc1', 'ihc2'], 'key_values': '2 colliding + None', 'max_left_rows': 3, 'max_right_rows': 3},
             {'family': 'hash-colliding-keys', 'kinds': ['ihc1+ihc2 (4 tuples)', 'ihc2+str (3 tuples)'], 'max_left_rows': 3, 'max_right_rows': 3},
             {'family': 'filtered-empty-side', 'kinds': ['int (<=4 rows)', 'str (<=3)', 'ihc1 (<=3)'], 'key_values': '{None,0,1}',
              'zero_row_ctor': ['mask', 'slice']}]
    x = x + [{'family': 'several-duplicated-keys', 'kinds': ['int', 'objkey (ints, strs, None in one object column)', 'int+int with None components']
              + ([] if tier == 'quick' else ['str', 'date', 'str+int', 'objkey+int']),
              'repeating_side_rows': '4 (two different keys twice each, every arrangement)' + ('' if tier == 'quick' else ' and 5'),
              'repeating_side': ['right', 'left', 'both'], 'other_side': ['empty', 'one matching + one foreign key', 'every key once']},
             {'family': 'built-at-run-time expect', 'constructions': list(FRESH_HOWS), 'key_values': '{None,0,1}',
              'max_rows': 3 if tier == 'quick' else 4}]
    return {'key_sequences': b, 'extra_families': x, 'joins': JOINS,
            'expect': VALID + ['<omitted>'] + INVALID_MAIN + ['(every 7th pair in quick, every 5th in thorough:)'] + INVALID_MORE,
            'near_miss_expect(int keys {None,0,1}; all values on pairs of <=2 rows per side, 3 rotating values on the larger pairs up to '
            + ('3' if tier == 'quick' else '4') + ' rows)': {k: repr(v) for k, v in NEAR_MISS.items()}}


if __name__ == '__main__':
    main(PID, cases, evaluate,
         rule='full decision table join kind x expect (4 valid, omitted, invalid values) x all ordered key sequences per side '
              '(hence all key multisets, in every order) of the stated size: raises SerifValueError iff invalid expect or a '
              'required uniqueness fails; otherwise view(result) == view(many_to_many result); plus the hash-colliding-key and '
              'filtered-zero-row-side families of `bound.extra_families` over the same table; near-miss and non-string expect values '
              '(whitespace, affixes, case, empty, substrings, separators; int / bool / list / tuple / bytes) must always be rejected; every valid value also as a str object built at run time (equal, not identical to the literal); uniqueness violations with several distinct, mutually unorderable duplicated keys. distinct = distinct '
              '(join, expect, kind, left-dup, right-dup, None-only dups, dup among matched / unmatched rows per side, empty sides)',
         bound=bound, nontrivial=nontrivial)

"""C09 bounded stand-in: inner_join returns exactly the key-equal (left row, right row) pairs, in
left-major order, all left columns then all right columns under their original names, inputs
unchanged.

Oracle: the nested-loop definition (relational_common.JoinSetup.want_inner) over plain tuples.
Scope: see join_blocks() - every pair of key-row sequences of the stated sizes over the stated
key-tuple pools, int / str / bool / date keys, 0-2 payload columns with unique markers per row,
keys given by name, by the table's own column Vector and by external Vectors, bare or in a list,
expect='many_to_many'.  Zero-row sides included.  The case stream does not depend on hash order.
The '*-hashcollide' blocks use int keys that DIFFER but have EQUAL Python hashes (-1 / -2 and
0 / 2**61-1), alone and as components of composite keys: only key equality makes a pair (an
implementation that buckets by hash value returns extra rows there; failure class suffix
':hash-colliding-keys').
The '*-twin' blocks (relational_common.twin_join_cases) give the keys BY NAME on tables where a column
whose name only SANITISES to the requested name stands BEFORE the column that carries exactly that name
(['Region ID', 'region_id'] with left_on='region_id'; ['A', 'a'] with 'a'; one to three keys; the twin on
the left, the right or both sides; its values are other keys): rows must be paired on the exactly named
column (class suffix ':key-named-like-an-earlier-sanitised-twin').
"""
from relational_common import *  # noqa

PID = 'C09'


def cases(tier, seed):
    for case in itertools.chain(join_cases(tier, heavy=False), twin_join_cases(tier, heavy=False)):
        case['op'] = 'inner_join'
        yield case


def evaluate(case):
    fails = []
    op = 'inner_join'
    descr = join_descr(case, op)
    try:
        s = JoinSetup(case)
    except Exception as e:       # building the operands is not the operation under test
        return [Fail(f'{PID}:setup:raises:{type(e).__name__}', f'{descr}: building the tables raised {e!r}', None, repr(e))]
    before = s.snapshot()
    try:
        res = s.L.inner_join(s.R, s.lon, s.ron, expect='many_to_many')
    except Exception as e:
        return [Fail(f'{PID}:{op}:raises:{type(e).__name__}', f'{descr}: raised {e!r}', s.want_inner(), repr(e),
                     f'{PID}:{op}:post')]
    check_join_output(PID, op, res, s.want_inner(), s.names(), fails, descr, tag=hc_tag(case))
    if s.snapshot() != before:
        fails.append(Fail(f'{PID}:{op}:input-modified', f'{descr}: an operand changed', before, s.snapshot()))
    return fails


def nontrivial(case):
    return join_signature(case)


if __name__ == '__main__':
    main(PID, cases, evaluate,
         rule='every pair (left key rows, right key rows) of each block in `bound`, compared with the nested-loop '
              'definition (rows, order, column names, inputs unchanged, C03 truthfulness of the result); kinds / '
              '(key mode, names, payload) configurations are crossed in full or rotated with the pair index as stated per '
              'block; distinct = distinct (key kinds, mode, names, payloads, row counts, dup-left, dup-right, None key, '
              'unmatched-left, unmatched-right, any-match) signatures',
         bound=lambda tier: join_bound(tier, heavy=False),
         nontrivial=nontrivial)

"""C09 bounded stand-in: inner_join returns exactly the key-equal (left row, right row) pairs, in
left-major order, all left columns then all right columns under their original names, inputs
unchanged.

Oracle: the nested-loop definition (relational_common.JoinSetup.want_inner) over plain tuples.
Scope: see join_blocks() - every pair of key-row sequences of the stated sizes over the stated
key-tuple pools, int / str / bool / date keys, 0-2 payload columns with unique markers per row,
keys given by name, by the table's own column Vector and by external Vectors, bare or in a list,
expect='many_to_many'.  Zero-row sides included.  The case stream does not depend on hash order.
The '*-hashcollide' blocks use int keys that DIFFER but have EQUAL Python hashes (-1 / -2 and
0 / 2**61-1), alone and as components of composite keys: only key equality makes a pair (an
implementation that buckets by hash value returns extra rows there; failure class suffix
':hash-colliding-keys').
The '*-twin' blocks (relational_common.twin_join_cases) give the keys BY NAME on tables where a column
whose name only SANITISES to the requested name stands BEFORE the column that carries exactly that name
(['Region ID', 'region_id'] with left_on='region_id'; ['A', 'a'] with 'a'; one to three keys; the twin on
the left, the right or both sides; its values are other keys): rows must be paired on the exactly named
column (class suffix ':key-named-like-an-earlier-sanitised-twin').
The 'advtext-*' blocks (relational_common.adv_text_join_cases) use two and three str key columns whose
components contain characters that could serve to glue a composite key into one text (unit / record
separator, NUL, comma, bar, blank, tab, slash), the empty string, concatenations of other components and
look-alikes of a tuple's repr; the tables hold ALL key tuples over such a component set, so every pair of
different tuples with the same glued text meets: only equal tuples pair (suffix ':adversarial-key-texts').
The 'large-*' blocks (large_join_cases) join tables of 9 / 12 / 17 / 33 and more rows with structured matched
/ unmatched subsets (suffix ':larger-tables').
The 'rejoin' cases (rejoin_cases / eval_rejoin) call inner_join, rewrite one key cell of the right or left
table in place (column view or table cell assignment; also to an int with the SAME hash: -1 <-> -2,
0 <-> 2**61-1), call again, write the old value back and call a third time, and swap the names of the key
column and another column through live views between two calls by name: every call must follow the
definition on the contents of its moment (key 'C09:inner_join-repeated:<what was written>:stale-<class>').
"""
from relational_common import *  # noqa

PID = 'C09'


# ---------------------------------------------------------------- key VECTORS that carry a column's name
# "keys given by vector": the vector IS the key, whatever its name.  Here the vector handed in as the key
# has the NAME of a column of its table but OTHER values (a derived vector that kept the name, e.g.
# t.id.fillna(0), or a vector built by hand): rows must be paired on the vector's values, not on the stored
# column of that name (class 'key-vector-named-like-a-column').
def namedvec_cases(tier):
    pool = [0, 1, 2] if tier == 'quick' else [0, 1, 2, 3]
    top = 3 if tier == 'quick' else 4
    for nl in range(1, top + 1):
        for nr in range(1, top + 1):
            for lk in itertools.product(pool, repeat=nl):
                for rk in itertools.product(pool, repeat=nr):
                    if tier == 'quick' and (sum(lk) + 2 * sum(rk) + nl) % 3:
                        continue
                    for side in ('L', 'R', 'LR'):
                        yield {'op': 'namedvec', 'lk': list(lk), 'rk': list(rk), 'side': side, 'shift': 1 + (sum(lk) + nr) % 2}


def eval_namedvec(case):
    lk, rk, side, sh = case['lk'], case['rk'], case['side'], case['shift']
    stored_l = [(k + sh) % 4 for k in lk]          # what the column of that name holds (decoy)
    stored_r = [(k + sh + 1) % 4 for k in rk]
    L = Table({'id': stored_l if side in ('L', 'LR') else lk, 'lp': [f'l{i}' for i in range(len(lk))]})
    R = Table({'id2': stored_r if side in ('R', 'LR') else rk, 'rp': [f'r{i}' for i in range(len(rk))]})
    lon = Vector(lk, name='id') if side in ('L', 'LR') else L.id
    ron = Vector(rk, name='id2') if side in ('R', 'LR') else R.id2
    descr = f"inner_join of Table(id={L.id._underlying!r}) and Table(id2={R.id2._underlying!r}) on vectors {lon._underlying!r} (named 'id') / {ron._underlying!r} (named 'id2')"
    want = [(L.id[i], f'l{i}', R.id2[j], f'r{j}') for i in range(len(lk)) for j in range(len(rk)) if lk[i] == rk[j]]
    try:
        res = L.inner_join(R, lon, ron, expect='many_to_many')
    except Exception as e:
        return [Fail(f'{PID}:inner_join:key-vector-named-like-a-column:raises:{type(e).__name__}', f'{descr}: raised {e!r}', want, repr(e))]
    cols = res.cols() if len(res.cols()) else []
    got = list(zip(*[list(c) for c in cols])) if cols else []
    if got != want:
        return [Fail(f'{PID}:inner_join:key-vector-named-like-a-column:row-values', f'{descr}: rows {got!r}, the definition on the given vectors gives {want!r}', want, got)]
    return []


def cases(tier, seed):
    for case in itertools.chain(join_cases(tier, heavy=False), twin_join_cases(tier, heavy=False),
                                adv_text_join_cases(tier, heavy=False), large_join_cases(tier, heavy=False)):
        case['op'] = 'inner_join'
        yield case
    yield from rejoin_cases(tier, ['inner_join'])
    yield from namedvec_cases(tier)


def evaluate(case):
    if case['op'] == 'rejoin':
        return eval_rejoin(PID, case)
    if case['op'] == 'namedvec':
        return eval_namedvec(case)
    fails = []
    op = 'inner_join'
    descr = big_join_descr(case, op)
    try:
        s = JoinSetup(case)
    except Exception as e:       # building the operands is not the operation under test
        return [Fail(f'{PID}:setup:raises:{type(e).__name__}', f'{descr}: building the tables raised {e!r}', None, repr(e))]
    before = s.snapshot()
    try:
        res = s.L.inner_join(s.R, s.lon, s.ron, expect='many_to_many')
    except Exception as e:
        return [Fail(f'{PID}:{op}:raises:{type(e).__name__}', f'{descr}: raised {e!r}', s.want_inner(), repr(e),
                     f'{PID}:{op}:post')]
    want = s.want_inner()
    got = check_join_output(PID, op, res, want, s.names(), fails, descr, tag=family_tag(case))
    if fails and len(want) > 12:
        explain_row_difference(fails, 0, s, got, want)
    if s.snapshot() != before:
        fails.append(Fail(f'{PID}:{op}:input-modified', f'{descr}: an operand changed', before, s.snapshot()))
    return fails


def nontrivial(case):
    if case['op'] == 'rejoin':
        return rejoin_signature(case)
    if case['op'] == 'namedvec':
        return ('namedvec', len(case['lk']), len(case['rk']), case['side'], len(set(case['lk']) & set(case['rk'])) > 0)
    sig = join_signature(case)
    if sig is not None and case.get('block', '').startswith(('advtext', 'large-')):
        sig += (case['block'], case.get('layout'), case.get('matched'), case.get('order'))
    return sig


if __name__ == '__main__':
    main(PID, cases, evaluate,
         rule='every pair (left key rows, right key rows) of each block in `bound`, compared with the nested-loop '
              'definition (rows, order, column names, inputs unchanged, C03 truthfulness of the result); kinds / '
              '(key mode, names, payload) configurations are crossed in full or rotated with the pair index as stated per '
              'block; adversarial-text, larger-table and call-write-call-again families as described in `bound`; distinct = distinct (key kinds, mode, names, payloads, row counts, dup-left, dup-right, None key, '
              'unmatched-left, unmatched-right, any-match) signatures',
         bound=lambda tier: dict(join_bound(tier, heavy=False), **round4_bound(tier, False, ['inner_join'])),
         nontrivial=nontrivial)

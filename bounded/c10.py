"""C10 bounded stand-in: join (left) and full_join keep every row and pad with None.

Oracle (from the statement, nested loops over plain tuples):
  left  = for each left row in order: its matches in right order, or - when it has none - the row
          padded with None in every right column, at that row's position;
  full  = left rows, then one row (None in every left column) per right row that matched nothing,
          in right-table order.
Derived relations, checked on the REAL outputs independently of the oracle:
  every left row occurs >= 1x in the left join; every row of both tables occurs >= 1x in the full
  join; inner <= left <= full as row multisets; full_join(L,R) and full_join(R,L) are the same
  multiset of rows once the two column blocks are swapped.
All calls use expect='many_to_many' (the cardinality argument is C11's subject).
Scope: join_blocks(tier, heavy=True) - same enumerator as C09 with a smaller budget (four joins
per case); every subset of unmatched rows on each side occurs (3 x 3 rows over >= 3 key values).
The '*-hashcollide' blocks use int keys that differ but have equal Python hashes (-1 / -2 and
0 / 2**61-1), alone and inside composite keys: an unmatched row whose key merely collides with a
key of the other side must still be padded, not paired (class suffix ':hash-colliding-keys').
The '*-twin' blocks give the keys BY NAME on tables where a column whose name only sanitises to the
requested name stands BEFORE the exactly named key column (['Region ID', 'region_id'] with
left_on='region_id', ['A', 'a'] with 'a', 1-3 keys, twin on either / both sides): join and full_join must
pair and pad on the exactly named column (class suffix ':key-named-like-an-earlier-sanitised-twin').
The 'advtext-*' blocks: two / three str key columns whose components contain would-be separators ('\x1f',
NUL, ',', '|', ' ', tab, '/'), '', concatenations of other components and tuple-repr look-alikes; the tables
hold all key tuples over such a component set (suffix ':adversarial-key-texts').
The 'large-*' blocks: right tables of 9 / 12 / 17 / 33 rows (distinct keys, neighbouring duplicates, interleaved
duplicates) against left tables holding the keys of a structured subset of the right rows (low half, high
half, evens, odds, all but two, first five, only the last, every third, none, all; ascending, or descending
with every key twice; a foreign key after every second row): several matched and unmatched rows on both
sides, unmatched right rows at high positions and interleaved - row ORDER is compared with the definition
(suffix ':larger-tables').
The 'rejoin' cases: join / full_join called, ONE key cell of the right or left table rewritten in place to a
different value (live column view t.k[i] / t['k'][i] / t.cols()[p][i], table cell t[i, 'k'] / t[i, p]) -
including ints with the SAME hash (-1 <-> -2, 0 <-> 2**61-1) -, called again, the old value written back,
called a third time; and the names of the key column and a second column swapped through live views between two
calls by name.  Every call must follow the definition on the contents of its moment; reported when the same call
on freshly built tables does (key 'C10:<join>-repeated:<what was written>:stale-<class>').
"""
from relational_common import *  # noqa

PID = 'C10'


def cases(tier, seed):
    for case in itertools.chain(join_cases(tier, heavy=True), twin_join_cases(tier, heavy=True),
                                adv_text_join_cases(tier, heavy=True), large_join_cases(tier, heavy=True)):
        case['op'] = 'outer_joins'
        yield case
    yield from rejoin_cases(tier, ['join', 'full_join'])


def _call(fails, op, descr, fn, want):
    try:
        return fn()
    except Exception as e:
        fails.append(Fail(f'{PID}:{op}:raises:{type(e).__name__}', f'{descr}: raised {e!r}', want, repr(e), f'{PID}:{op}:post'))
        return None


def _covered(block_rows, table_rows):
    """Does every table row occur at least once (with multiplicity: at least as often) among block_rows?"""
    have = Counter(map(rkey, block_rows))
    need = Counter(map(rkey, table_rows))
    return all(have[k] >= n for k, n in need.items())


def _submultiset(a, b):
    ca, cb = Counter(map(rkey, a)), Counter(map(rkey, b))
    return all(cb[k] >= n for k, n in ca.items())


def evaluate(case):
    if case['op'] == 'rejoin':
        return eval_rejoin(PID, case)
    fails = []
    try:
        s = JoinSetup(case)
    except Exception as e:
        return [Fail(f'{PID}:setup:raises:{type(e).__name__}', f'{big_join_descr(case, "setup")}: building the tables raised {e!r}', None, repr(e))]
    before = s.snapshot()
    nl, nr = s.nl, s.nr
    kw = dict(expect='many_to_many')

    d_in = big_join_descr(case, 'inner_join')
    d_left = big_join_descr(case, 'join')
    d_full = big_join_descr(case, 'full_join')
    inner = _call(fails, 'inner_join', d_in, lambda: s.L.inner_join(s.R, s.lon, s.ron, **kw), None)
    left = _call(fails, 'join', d_left, lambda: s.L.join(s.R, s.lon, s.ron, **kw), s.want_left())
    full = _call(fails, 'full_join', d_full, lambda: s.L.full_join(s.R, s.lon, s.ron, **kw), s.want_full())
    swapped = _call(fails, 'full_join', d_full + ' [operands swapped]', lambda: s.R.full_join(s.L, s.ron, s.lon, **kw), None)

    g_left = g_full = g_inner = g_swapped = None
    big = len(s.lrows) + len(s.rrows) > 12
    if left is not None:
        n0 = len(fails)
        g_left = check_join_output(PID, 'join', left, s.want_left(), s.names(), fails, d_left, tag=family_tag(case))
        if big:
            explain_row_difference(fails, n0, s, g_left, s.want_left())
    if full is not None:
        n0 = len(fails)
        g_full = check_join_output(PID, 'full_join', full, s.want_full(), s.names(), fails, d_full, tag=family_tag(case))
        if big:
            explain_row_difference(fails, n0, s, g_full, s.want_full())
    try:
        g_inner = rows_of(inner) if inner is not None else None
        g_swapped = rows_of(swapped) if swapped is not None else None
    except AssertionError as e:
        fails.append(Fail(f'{PID}:full_join:ragged-result', f'{d_full}: {e}', None, str(e)))
    if swapped is not None:
        m = truthful(swapped)
        if m:
            fails.append(Fail('C03:full_join:truthful', f'{d_full} [operands swapped]: {m}', None, m))

    # ---- relations between the real outputs ----
    if g_left is not None:
        if s.lrows and not _covered([r[:nl] for r in g_left], s.lrows):
            fails.append(Fail(f'{PID}:join:left-row-lost', f'{d_left}: some left row does not occur in the left join',
                              s.lrows, g_left, f'{PID}:lemma:left-complete'))
        if g_inner is not None and not _submultiset(g_inner, g_left):
            fails.append(Fail(f'{PID}:containment:inner-in-left', f'{d_left}: inner_join rows are not contained in join rows',
                              g_inner, g_left, f'{PID}:lemma:containment'))
    if g_full is not None:
        if s.lrows and not _covered([r[:nl] for r in g_full], s.lrows):
            fails.append(Fail(f'{PID}:full_join:left-row-lost', f'{d_full}: some left row does not occur in the full join',
                              s.lrows, g_full, f'{PID}:lemma:full-complete'))
        if s.rrows and not _covered([r[nl:] for r in g_full], s.rrows):
            fails.append(Fail(f'{PID}:full_join:right-row-lost', f'{d_full}: some right row does not occur in the full join',
                              s.rrows, g_full, f'{PID}:lemma:full-complete'))
        if g_left is not None and not _submultiset(g_left, g_full):
            fails.append(Fail(f'{PID}:containment:left-in-full', f'{d_full}: join rows are not contained in full_join rows',
                              g_left, g_full, f'{PID}:lemma:containment'))
        if g_swapped is not None:
            back = [r[nr:] + r[:nr] for r in g_swapped]
            if Counter(map(rkey, back)) != Counter(map(rkey, g_full)):
                fails.append(Fail(f'{PID}:full_join:swap-symmetry',
                                  f'{d_full}: full_join(L,R) and full_join(R,L) differ as row multisets (column blocks swapped back)',
                                  sorted(map(repr, g_full)), sorted(map(repr, back)), f'{PID}:lemma:symmetry'))
    if s.snapshot() != before:
        fails.append(Fail(f'{PID}:join:input-modified', f'{d_left}: an operand changed during join / full_join', before, s.snapshot()))
    return fails


def nontrivial(case):
    if case['op'] == 'rejoin':
        return rejoin_signature(case)
    sig = join_signature(case)
    if sig is not None and case.get('block', '').startswith(('advtext', 'large-')):
        sig += (case['block'], case.get('layout'), case.get('matched'), case.get('order'))
    return sig


if __name__ == '__main__':
    main(PID, cases, evaluate,
         rule='every pair (left key rows, right key rows) of each block in `bound`; join and full_join compared with the '
              'nested-loop definition (rows, order, padding, names, truthfulness, inputs unchanged) and the derived relations '
              '(left/right row coverage, inner<=left<=full as multisets, full_join swap symmetry) checked on the real outputs; '
              'expect=many_to_many throughout; adversarial-text, larger-table and call-write-call-again families as described in `bound`; distinct = distinct signatures as for C09',
         bound=lambda tier: dict(join_bound(tier, heavy=True), **round4_bound(tier, True, ['join', 'full_join'])),
         nontrivial=nontrivial)

"""Alias tracker (serif/alias_tracker.py): contracts assumed at call sites.

At the value level the tracker is ghost state: register / unregister change nothing a
value-level postcondition mentions; check_writable either returns or raises AliasError.
The protocol around it is checked by pyframe (C15), its behaviour by the bounded monitor."""
from pyvc.contract import contract
from serif.alias_tracker import AliasError


@contract('serif.alias_tracker._AliasTracker.register', props=[])
class register:
    params = {'self': 'opaque', 'vec': 'opaque', 'tuple_id': 'int'}
    trusted = True


@contract('serif.alias_tracker._AliasTracker.unregister', props=[])
class unregister:
    params = {'self': 'opaque', 'vec': 'opaque', 'tuple_id': 'int'}
    trusted = True


@contract('serif.alias_tracker._AliasTracker.check_writable', props=[])
class check_writable:
    params = {'self': 'opaque', 'vec': 'opaque', 'tuple_id': 'int'}
    trusted = True
    may_raise = [AliasError]

    def returns():
        return True

"""Contracts for serif/vector.py."""
from pyvc.contract import contract, lemma
from serif.typing import DataType
from contracts.specs import vec, vec_inferred, copy_spec


@contract('serif.typeutils.slice_length', props=['C07', 'C08'])
class slice_length:
    """C07: length of v[slice] for every start/stop/step (incl. empty, out-of-range, reversed)."""
    params = {'s': 'slice', 'sequence_length': 'nat'}
    raises = [(ValueError, lambda s: s.step is not None and s.step == 0, True)]

    def returns(s, sequence_length):
        return len(range(sequence_length)[s])


@contract('serif.vector.Vector.copy', props=['C07', 'C01', 'C18'])
class copy:
    c03 = True
    params = {'self': 'vector', 'new_values': 'alt:none|seq_any|gen_any', 'name': 'alt:ellipsis|name'}

    def requires(self, new_values):
        # C03: the values handed over belong to the vector's dtype (every call site proves this)
        if new_values is None:
            return S.truthful(self)
        return all(S.truthful_elem(e, self._dtype) for e in new_values)

    def returns(self, new_values, name):
        return copy_spec(self, new_values, name)


from contracts.specs import getitem_spec, is_bool_mask  # noqa: E402


@contract('serif.vector.Vector.__getitem__', props=['C07', 'C18', 'C03'])
class getitem:
    """C07: v[i] is the i-th element, v[slice] equals list slicing for every start/stop/step,
    v[mask] keeps exactly the True positions in order; dtype kind and name kept."""
    c03 = True
    params = {'self': 'vector', 'key': 'alt:int|bool|slice|boolvec|list_bool'}

    def requires(self, key):
        return S.truthful(self) and (isinstance(key, (int, slice)) or is_bool_mask(key))

    def _bad_index(self, key):
        return isinstance(key, int) and not (-len(self._underlying) <= key < len(self._underlying))

    def _bad_step(key):
        return isinstance(key, slice) and key.step is not None and key.step == 0

    def _bad_mask(self, key):
        return is_bool_mask(key) and len(key) != len(self._underlying)
    raises = [(IndexError, _bad_index, True), (ValueError, lambda self, key: getitem._bad_step(key) or getitem._bad_mask(self, key), True)]

    def returns(self, key):
        return getitem_spec(self, key)


import operator  # noqa: E402
from contracts.specs import compare_spec, arith_spec, length_mismatch, is_plain_scalar  # noqa: E402
from serif.vector import Vector  # noqa: E402


def _operand_ok(other):
    return isinstance(other, (Vector, list)) or is_plain_scalar(other)


@contract('serif.vector.Vector._elementwise_compare', props=['C06', 'C07', 'C18', 'C03'])
class elementwise_compare:
    """C06/C07: comparison is False at a None position, otherwise Python's own comparison of
    the i-th operands, result a non-nullable bool vector; unequal lengths raise."""
    c03 = True
    params = {'self': 'vector', 'other': 'alt:vector|list_any|scalar', 'op': 'func2'}

    def requires(other):
        return _operand_ok(other)
    raises = [(ValueError, length_mismatch, True)]

    def returns(self, other, op):
        return compare_spec(self, other, op)


def _make_compare(dunder, opfn):
    class spec:
        params = {'self': 'vector', 'other': 'alt:vector|list_any|scalar'}

        def requires(other):
            return _operand_ok(other)
        raises = [(ValueError, length_mismatch, True)]

        def returns(self, other):
            return compare_spec(self, other, opfn)
    spec.__name__ = dunder
    contract(f'serif.vector.Vector.{dunder}', props=['C07', 'C06'])(spec)


for _d, _o in [('__eq__', operator.eq), ('__ne__', operator.ne), ('__lt__', operator.lt),
               ('__le__', operator.le), ('__gt__', operator.gt), ('__ge__', operator.ge),
               ('__and__', operator.and_), ('__or__', operator.or_), ('__xor__', operator.xor),
               ('__rand__', operator.and_), ('__ror__', operator.or_), ('__rxor__', operator.xor)]:
    _make_compare(_d, _o)


from contracts import specs as S  # noqa: E402


@contract('serif.vector.Vector._elementwise_operation', props=['C05', 'C06', 'C18', 'C03', 'C04'])
class elementwise_operation:
    """C05: same length, element i = op(self_i, other_i) in written order, None propagates,
    unnamed, dtype by inference on the result; unequal lengths raise."""
    params = {'self': 'vector', 'other': 'alt:vector|list_any|scalar', 'op_func': 'func2',
              'op_name': 'str', 'op_symbol': 'str'}
    note = 'scalar operator applications are uninterpreted and assumed defined (the quantifier: "all values for which Python itself defines the scalar operation")'

    def requires(other):
        return _operand_ok(other)
    raises = [(ValueError, length_mismatch, True)]

    def returns(self, other, op_func):
        return arith_spec(self, other, op_func)


def _make_compare_variant(opname):
    class spec(elementwise_compare):
        __doc__ = elementwise_compare.__doc__ + f'  (Variant with the concrete operator `operator.{opname}`.)'
        params = dict(elementwise_compare.params, op='op:' + opname)
    spec.__name__ = 'elementwise_compare_' + opname
    contract('serif.vector.Vector._elementwise_compare', props=['C07', 'C06'], variant='op-' + opname)(spec)


for _op in ('eq', 'ne', 'lt', 'le', 'gt', 'ge'):
    _make_compare_variant(_op)


def _make_compare_self_variant(opname):
    class spec(elementwise_compare):
        __doc__ = (f'C07/C06 (`v {opname} v`, both operands the SAME object, concrete operator `operator.{opname}`): still '
                   'Python\'s own comparison element by element - an element that does not equal itself (NaN) or is None '
                   'gives what the scalar comparison gives, so identity of the operands is no shortcut.')
        params = dict(elementwise_compare.params, other='same:self', op='op:' + opname)
    spec.__name__ = 'elementwise_compare_self_' + opname
    contract('serif.vector.Vector._elementwise_compare', props=['C07', 'C06'], variant='self-op-' + opname)(spec)


for _op in ('eq', 'ne', 'lt', 'le', 'gt', 'ge'):
    _make_compare_self_variant(_op)


def _make_elementwise_variant(opname):
    class spec(elementwise_operation):
        __doc__ = elementwise_operation.__doc__ + f'  (Variant with the concrete operator `operator.{opname}`: branches that depend on which operator is applied are explored.)'
        params = dict(elementwise_operation.params, op_func='op:' + opname)
    spec.__name__ = 'elementwise_operation_' + opname
    contract('serif.vector.Vector._elementwise_operation', props=['C05', 'C03', 'C04'], variant='op-' + opname)(spec)


for _op in ('add', 'sub', 'mul', 'truediv', 'floordiv', 'mod', 'pow'):
    _make_elementwise_variant(_op)


def _make_arith(dunder, opfn, note=''):
    class spec:
        params = {'self': 'vector', 'other': 'alt:vector|list_any|scalar'}

        def requires(other):
            return _operand_ok(other)
        raises = [(ValueError, length_mismatch, True)]

        def returns(self, other):
            return arith_spec(self, other, opfn)
    spec.__name__ = dunder
    spec.note = note
    contract(f'serif.vector.Vector.{dunder}', props=['C05', 'C06', 'C03'])(spec)


for _d, _o in [('__add__', operator.add), ('__sub__', operator.sub), ('__mul__', operator.mul),
               ('__truediv__', operator.truediv), ('__floordiv__', operator.floordiv),
               ('__mod__', operator.mod), ('__pow__', operator.pow),
               ('__radd__', S.r_add), ('__rsub__', S.r_sub), ('__rtruediv__', S.r_truediv),
               ('__rfloordiv__', S.r_floordiv), ('__rmod__', S.r_mod), ('__rpow__', S.r_pow),
               ('bit_lshift', operator.lshift), ('bit_rshift', operator.rshift)]:
    _make_arith(_d, _o)
_make_arith('__rmul__', operator.mul, note='trusted: * is commutative on builtin scalars (other * x == x * other); validated on the value pool by the stand-in')


@contract('serif.vector.Vector._unary_operation', props=['C05', 'C06', 'C03', 'C18'])
class unary_operation:
    params = {'self': 'vector', 'op_func': 'func1', 'op_name': 'str'}

    def returns(self, op_func):
        return S.unary_spec(self, op_func)


def _make_unary_variant(opname):
    class spec(unary_operation):
        __doc__ = f'C05 (unary, concrete operator `operator.{opname}`): branches that depend on which operator is applied are explored.'
        params = dict(unary_operation.params, op_func='op:' + opname)
    spec.__name__ = 'unary_operation_' + opname
    contract('serif.vector.Vector._unary_operation', props=['C05', 'C03'], variant='op-' + opname)(spec)


for _op in ('neg', 'pos', 'abs'):
    _make_unary_variant(_op)


def _make_unary(dunder, opfn):
    class spec:
        params = {'self': 'vector'}

        def returns(self):
            return S.unary_spec(self, opfn)
    spec.__name__ = dunder
    contract(f'serif.vector.Vector.{dunder}', props=['C05', 'C06', 'C03'])(spec)


for _d, _o in [('__neg__', operator.neg), ('__pos__', operator.pos), ('__abs__', operator.abs)]:
    _make_unary(_d, _o)


# ------------------------------------------------------------------ C06 reductions (1-D vectors)
@contract('serif.vector.Vector.sum', props=['C06', 'C12'])
class v_sum:
    params = {'self': 'vector'}

    def returns(self):
        return S.sum_spec(self._underlying)


@contract('serif.vector.Vector.mean', props=['C06', 'C12'])
class v_mean:
    params = {'self': 'vector'}

    def returns(self):
        return S.mean_spec(self._underlying)


@contract('serif.vector.Vector.min', props=['C06', 'C12'])
class v_min:
    """None is skipped; defined by the statement for vectors holding at least one value."""
    params = {'self': 'vector'}

    def requires(self):
        return S.has_value(self._underlying)

    def returns(self):
        return S.min_spec(self._underlying)


@contract('serif.vector.Vector.max', props=['C06', 'C12'])
class v_max:
    params = {'self': 'vector'}

    def requires(self):
        return S.has_value(self._underlying)

    def returns(self):
        return S.max_spec(self._underlying)


@contract('serif.vector.Vector.stdev', props=['C06', 'C12'])
class v_stdev:
    params = {'self': 'vector', 'population': 'bool'}

    def returns(self, population):
        return S.stdev_spec(self._underlying, population)


@contract('serif.vector.Vector.any', props=['C06'])
class v_any:
    params = {'self': 'vector'}

    def returns(self):
        return any(v for v in self._underlying if v is not None)


@contract('serif.vector.Vector.all', props=['C06'])
class v_all:
    params = {'self': 'vector'}

    def returns(self):
        return all(v for v in self._underlying if v is not None)


@contract('serif.vector.Vector.__len__', props=['C06', 'C02'])
class v_len:
    """len() counts None."""
    params = {'self': 'vector'}
    inline = True

    def returns(self):
        return len(self._underlying)


@contract('serif.vector.Vector.isna', props=['C06', 'C03'])
class v_isna:
    c03 = True
    params = {'self': 'vector'}

    def returns(self):
        return vec([x is None for x in self._underlying], DataType(bool, False), None, False)


@contract('serif.vector.Vector.dropna', props=['C06', 'C03'])
class v_dropna:
    """dropna removes exactly the positions isna marks and reports itself non-nullable."""
    c03 = True
    params = {'self': 'vector'}

    def requires(self):
        return S.truthful(self)

    def returns(self):
        values = [x for x in self._underlying if x is not None]
        if self._dtype is None:
            return vec(values, None, None, False)
        return vec(values, DataType(self._dtype.kind, False), None, False)


# ------------------------------------------------------------------ C05 broadcast methods / properties
import inspect as _inspect  # noqa: E402
import serif.vector as _sv  # noqa: E402


@contract('serif.vector.MethodProxy.__call__', props=['C05', 'C06', 'C03'])
class methodproxy_call:
    """C05: v.method(*args) == [e.method(*args) for e], None staying None - for EVERY method name
    (the name is a symbolic constant) and every argument bundle."""
    params = {'self': 'methodproxy', 'args': 'opaque', 'kwargs': 'opaque'}

    def returns(self, args, kwargs):
        return S.broadcast_method_spec(self._vector._underlying, self._method_name, args, kwargs)


def _make_wrapper(cls, mname, fn):
    sig = _inspect.signature(fn)
    has_var = any(p.kind == p.VAR_POSITIONAL for p in sig.parameters.values())

    class spec:
        params = {'self': 'vector', 'args': 'opaque', 'kwargs': 'opaque'} if has_var else {'self': 'vector'}
        if has_var:
            def returns(self, args, kwargs):
                return S.broadcast_method_spec(self._underlying, mname, args, kwargs)
        else:
            def returns(self):
                return S.broadcast_method_spec(self._underlying, mname, (), {})
    spec.__name__ = f'{cls.__name__}_{mname}'
    spec.__doc__ = f'C05: {cls.__name__}.{mname} broadcasts the element method of the same name.'
    contract(f'serif.vector.{cls.__name__}.{mname}', props=['C05', 'C06'])(spec)


_SPECIAL = {'__init__', '_elementwise_compare', '__add__', 'eomonth', 'before', 'after', 'before_last', 'after_last'}
for _cls in (_sv._String, _sv._Date):
    for _n, _f in list(_cls.__dict__.items()):
        if callable(_f) and _n not in _SPECIAL and not _n.startswith('__'):
            _make_wrapper(_cls, _n, _f)


def _make_partition(mname, pm, idx):
    class spec:
        params = {'self': 'vector', 'sep': 'str'}

        def returns(self, sep):
            return vec_inferred([None if s is None else getattr(s, pm)(sep)[idx] for s in self._underlying], None, False)
    spec.__name__ = f'_String_{mname}'
    contract(f'serif.vector._String.{mname}', props=['C05', 'C06'])(spec)


for _m, _pm, _ix in [('before', 'partition', 0), ('after', 'partition', 2), ('before_last', 'rpartition', 0), ('after_last', 'rpartition', 2)]:
    _make_partition(_m, _pm, _ix)


# ------------------------------------------------------------------ C16 fingerprint
from pyvc.contract import loop_invariant  # noqa: E402


@contract('serif.vector.Vector._hash_element', props=['C16'])
class hash_element:
    """Assumed at call sites: a deterministic function of the element."""
    params = {'x': 'any'}
    trusted = True

    def returns(x):
        return S.hash_elem(x)


@contract('serif.vector.Vector._hash_element', props=['C16'], variant='scalars')
class hash_element_scalars:
    """C16 ("a write to an unequal value that Python's own hash() can tell apart changes the
    fingerprint"): for str / int / bool elements the element hash IS Python's hash(), so no two
    values that hash() separates are merged before the rolling hash; None has a fixed code."""
    params = {'x': 'alt:str|int|bool|none'}

    def returns(x):
        if x is None:
            return 0x9E3779B97F4A7C15
        return hash(x)


@contract('serif.vector.Vector._hash_element', props=['C16'], variant='floats')
class hash_element_floats:
    """C16 (float elements): NaN - the one float that differs from itself - has a fixed code; every
    other float, the infinities included, keeps Python's own hash(), so inf, -inf and NaN stay
    three different elements for the fingerprint."""
    params = {'x': 'float'}

    def returns(x):
        import math
        if math.isnan(x):
            return 0xDEADBEEFCAFEBABE
        return hash(x)


@loop_invariant('serif.vector.Vector._compute_fingerprint_full', 0, havoc={'total': 'int', 'h': 'int'})
def fp_loop_inv(k, self, total):
    return total == S.fp_prefix(self._underlying, k)


@contract('serif.vector.Vector._compute_fingerprint_full', props=['C16'])
class compute_fingerprint_full:
    """C16: the fingerprint is the Horner fold of the element hashes of the CURRENT contents."""
    params = {'self': 'vector'}

    def returns(self):
        return S.fp_spec(self._underlying)


@lemma('fingerprint-carry', props=['C16'])
class l_fp_carry:
    """Different running totals stay different after absorbing the same element hash."""
    params = {'t1': 'int', 't2': 'int', 'h': 'int'}

    def requires(t1, t2):
        return 0 <= t1 < S.FP_P and 0 <= t2 < S.FP_P and t1 != t2

    def statement(t1, t2, h):
        return S.horner_step(t1, h) != S.horner_step(t2, h)


@lemma('fingerprint-inject', props=['C16'])
class l_fp_inject:
    """Changing one element hash by a non-multiple of P changes the running total."""
    params = {'t': 'int', 'h1': 'int', 'h2': 'int'}

    def requires(h1, h2):
        return (h1 - h2) % S.FP_P != 0

    def statement(t, h1, h2):
        return S.horner_step(t, h1) != S.horner_step(t, h2)


@lemma('fingerprint-order', props=['C16'])
class l_fp_order:
    """Element order matters: swapping two adjacent element hashes that differ mod P changes
    the total (for running totals in range)."""
    params = {'t': 'int', 'a': 'int', 'b': 'int'}

    def requires(t, a, b):
        return 0 <= t < S.FP_P and (a - b) % S.FP_P != 0

    def statement(t, a, b):
        return S.horner_step(S.horner_step(t, a), b) != S.horner_step(S.horner_step(t, b), a)


@lemma('fingerprint-range', props=['C16'])
class l_fp_range:
    params = {'t': 'int', 'h': 'int'}

    def statement(t, h):
        return 0 <= S.horner_step(t, h) < S.FP_P


@contract('serif.vector.Vector._ensure_fp_powers', props=['C16'])
class ensure_fp_powers:
    """Writes the cache field _fp_powers only (frame checked by pyframe)."""
    params = {'self': 'vector'}
    trusted = True
    modifies = ['_fp_powers']


@contract('serif.vector.Vector.fingerprint', props=['C16'])
class fingerprint:
    """C16: under memo coherence (the memo is absent or current - kept by the store protocol),
    fingerprint() returns the fold over the current contents and leaves a coherent memo."""
    params = {'self': 'vector_fp'}

    def requires(self):
        return self._fp is None or self._fp == S.fp_spec(self._underlying)

    def returns(self):
        return S.fp_spec(self._underlying)

    def ensures(self, result):
        return self._fp == S.fp_spec(self._underlying)


@contract('serif.vector.Vector._invalidate_fp', props=['C16'])
class invalidate_fp:
    params = {'self': 'vector_fp'}

    def ensures(self, result):
        return self._fp is None


# ------------------------------------------------------------------ constructor contract vs real __new__/__init__
@lemma('Vector-constructor-contract', props=['C04', 'C03', 'C18'])
class l_constructor:
    """The constructor contract assumed at every `Vector(...)` site (values = tuple(initial);
    dtype = given / DataType(given type) / infer_dtype(values) when non-empty / None; name and
    row flag stored) is what the real Vector.__new__ + Vector.__init__ do for scalar elements."""
    params = {'initial': 'alt:seq_any|list_any|gen_any', 'dtype': 'alt:none|dtype|kind', 'name': 'name', 'as_row': 'bool'}

    def statement(initial, dtype, name, as_row):
        real = S.type_call_vector(initial, dtype, name, as_row)
        model = Vector(initial, dtype=dtype, name=name, as_row=as_row)
        return S.same_view(real, model)


# ------------------------------------------------------------------ C02 / C03 concatenation
@loop_invariant('serif.vector.Vector._concat_dtype', 0, havoc={'dtype': 'dtype'})
def concat_dtype_inv(k, self, values, dtype):
    st = S.concat_dtype_state(self._dtype, values, k)
    return dtype.kind is st[0] and dtype.nullable == st[1] and dtype.kind is not type(None)


@contract('serif.vector.Vector._concat_dtype', props=['C03', 'C02'])
class concat_dtype:
    params = {'self': 'vector', 'values': 'alt:seq_any|list_any'}

    def requires(self):
        return self._dtype is None or S.valid_dtype(self._dtype)

    def returns(self, values):
        return S.concat_dtype_spec(self._dtype, values)


def _typesafe_clash(self, other):
    return (isinstance(other, Vector) and self._dtype is not None and other._dtype is not None
            and not self._dtype.nullable and not other._dtype.nullable
            and self._dtype.kind is not other._dtype.kind)


@contract('serif.vector.Vector.__lshift__', props=['C02', 'C03', 'C15'])
class lshift:
    """C02: v << x appends: a vector's / sequence's elements, or the one scalar cell (strings,
    empty strings and None are cells); existing elements are untouched."""
    params = {'self': 'vector', 'other': 'alt:vector|list_any|scalar|str'}
    from serif.errors import SerifTypeError as _E
    raises = [(_E, _typesafe_clash, True)]

    def requires(self, other):
        return (self._dtype is None or S.valid_dtype(self._dtype)) and _operand_ok(other)

    def returns(self, other):
        return S.lshift_spec(self, other)


# ------------------------------------------------------------------ C08 assignment: promotion and decision
from serif.errors import SerifTypeError, SerifIndexError, SerifValueError  # noqa: E402
from serif.alias_tracker import AliasError  # noqa: E402


@contract('serif.vector.Vector._can_promote', props=['C08', 'C03'])
class can_promote_c:
    params = {'from_kind': 'kind', 'to_kind': 'kind'}

    def returns(from_kind, to_kind):
        return S.can_promote(from_kind, to_kind)


def _promote_rejected(self, new_dtype):
    return not (self._dtype.kind is new_dtype or S.can_promote(self._dtype.kind, new_dtype))


@contract('serif.vector.Vector._promote', props=['C08', 'C03', 'C18'])
class promote:
    """C08: a wider compatible kind promotes the whole column with existing elements converted
    (None kept, nullability kept, name untouched); anything else raises SerifTypeError before
    anything is changed."""
    params = {'self': 'vector', 'new_dtype': 'kind'}
    raises = [(SerifTypeError, _promote_rejected, True)]

    def requires(self):
        return self._dtype is not None and S.valid_dtype(self._dtype) and S.truthful(self)

    def _new_dtype(self, new_dtype):
        return DataType(new_dtype, self._dtype.nullable)

    def _new_values(self, new_dtype):
        if self._dtype.kind is new_dtype:
            return self._underlying
        return tuple(S.convert_value(new_dtype, x) for x in self._underlying)
    updates = {'_dtype': _new_dtype, '_underlying': _new_values}


@loop_invariant('serif.vector.Vector.__setitem__', 'for val in new_values', havoc={'target_kind': 'kind', 'required_kind': 'kind'})
def setitem_decision_inv(k, self, new_values, target_kind):
    """After k new values: no rejection so far and target_kind is the ladder fold of them."""
    st = S.ladder_state(self._dtype.kind, new_values, k)
    return (not st[1]) and target_kind is st[0] and target_kind is not type(None)


def _bad_int_key(self, key):
    if isinstance(key, list):
        return len(key) == len_or_none(key) and any(not (-len(self._underlying) <= i < len(self._underlying)) for i in key)
    return isinstance(key, int) and not (-len(self._underlying) <= key < len(self._underlying))


def len_or_none(x):
    return len(x)


def _bad_slice(self, key, value):
    if isinstance(key, list):
        return isinstance(value, list) and len(value) != len(key)
    return isinstance(key, slice) and isinstance(value, list) and len(value) != len(range(len(self._underlying))[key])


class _setitem_base:
    """C08 (decision + frame): for int and slice keys with a scalar or a list value — bad index /
    length mismatch raise; on success length and name are unchanged, the column kind is the
    ladder fold over EVERY written value (existing elements converted by _promote), None makes it
    nullable, and no value was rejected; SerifTypeError only arises from the ladder.  For an int
    key with a scalar value the CONTENTS after the write are proved too (the addressed cell holds
    the value, every other cell is the old one, converted only by the promotion); for list values
    element values go through the scatter-loop abstraction and are bounded only."""
    params = {'self': 'vector', 'key': 'alt:int|slice', 'value': 'alt:scalar|list_any'}
    may_raise = [AliasError, SerifTypeError]
    raises = [(SerifIndexError, _bad_int_key, True), (SerifValueError, _bad_slice, True),
              (ValueError, lambda key: isinstance(key, slice) and key.step is not None and key.step == 0, True)]

    def requires(self, key, value):
        # slice keys with a scalar (repeated) value are covered by the bounded stand-in only
        return ((self._dtype is None or S.valid_dtype(self._dtype)) and S.truthful(self)
                and (isinstance(key, int) or isinstance(value, list))
                and (not isinstance(key, list) or len(key) > 0))

    def ensures(self, key, value, old):
        n = len(old._underlying)
        if len(self._underlying) != n or not (self._name == old._name):
            return False
        vals = S.written_values(key, value, n)
        if old._dtype is None or len(vals) == 0:
            return self._dtype == old._dtype
        if old._dtype.kind is object:
            kind_ok = self._dtype.kind is object
        else:
            st = S.setitem_kind_state(old._dtype, vals)
            kind_ok = (not st[1]) and self._dtype.kind is st[0]
        if not (kind_ok and self._dtype.nullable == (old._dtype.nullable or any(v is None for v in vals))):
            return False
        if isinstance(key, int) and not isinstance(value, list):
            # contents (single cell): exactly what list assignment gives, other cells converted by
            # the promotion only
            return tuple(self._underlying) == _expected_after_int_write(old, key, value, self._dtype.kind)
        if isinstance(key, list) and isinstance(value, list):
            return _index_list_write_ok(self, old, key, value, old._dtype.kind is self._dtype.kind)
        return True


def _nk(i, n):
    return i if i >= 0 else i + n


def _index_list_write_ok(self, old, key, value, same_kind):
    """Contents after `v[[i0, i1, ...]] = [x0, x1, ...]`, as sequential list assignment gives them
    (a repeated index: the last value wins): a cell no index addresses keeps its (converted) old
    element; the cell of an index that is not repeated later holds that index's value."""
    from contracts.specs import forall, implies, at, same
    n = len(old._underlying)
    new_kind = self._dtype.kind
    # the old contents as the promotion leaves them (elementwise; identity when the kind is unchanged)
    kept = old._underlying if same_kind else tuple(S.convert_value(new_kind, x) for x in old._underlying)
    return (
        forall('i', lambda j: implies(
            0 <= j < n and forall('i', lambda t: implies(0 <= t < len(key), _nk(at(key, t), n) != j)),
            same(at(self._underlying, j), at(kept, j))))
        and forall('i', lambda t: implies(
            0 <= t < len(key) and forall('i', lambda u: implies(t < u < len(key), _nk(at(key, u), n) != _nk(at(key, t), n))),
            same(at(self._underlying, _nk(at(key, t), n)), at(value, t))))
    )


def _expected_after_int_write(old, key, value, new_kind):
    n = len(old._underlying)
    k = key if key >= 0 else key + n
    if old._dtype.kind is new_kind:
        return tuple(value if j == k else x for j, x in enumerate(old._underlying))
    return tuple(value if j == k else S.convert_value(new_kind, x) for j, x in enumerate(old._underlying))


def _setitem_variant(name, key_sort, value_sort, primary=False, tier='quick'):
    spec = type(f'setitem_{name}', (), dict(_setitem_base.__dict__))
    spec.params = {'self': 'vector', 'key': key_sort, 'value': value_sort}
    spec.tier = tier
    spec.__doc__ = _setitem_base.__doc__
    contract('serif.vector.Vector.__setitem__', props=['C08', 'C03'], variant=None if primary else name)(spec)


_setitem_variant('int-scalar', 'int', 'scalar', primary=True)
_setitem_variant('int-list', 'int', 'list_any')
# slice key + list value: proof attempted but unstable (nonlinear slice arithmetic inside the fold-matching
# queries times out under load): not part of the suite; the form is covered by the bounded stand-in only
_setitem_variant('indexlist-list', 'list_int', 'list_any')


# ------------------------------------------------------------------ C06 / C03 fillna, to_object, T
def _fillna_rejected(self, value):
    if self._dtype is None or value is None:
        return False
    if S.accepts(value, DataType(self._dtype.kind, True)):
        return False
    return not S.can_promote(self._dtype.kind, type(value))


@contract('serif.vector.Vector.fillna', props=['C06', 'C03', 'C18'])
class fillna:
    """C06: fillna(x) replaces exactly the None positions and nothing else; for x other than None
    the result reports itself non-nullable; a wider compatible x promotes the column (existing
    elements converted); name and row flag kept."""
    c03 = True
    params = {'self': 'vector', 'value': 'scalar'}
    raises = [(ValueError, _fillna_rejected, True)]

    def requires(self):
        return (self._dtype is None or S.valid_dtype(self._dtype)) and S.truthful(self)

    def ensures(self, value, result):
        if not (result._name == self._name and result._display_as_row == self._display_as_row):
            return False
        if self._dtype is None:
            return len(result._underlying) == 0
        if value is None:
            return tuple(result._underlying) == tuple(self._underlying) and result._dtype.kind is self._dtype.kind
        if S.accepts(value, DataType(self._dtype.kind, True)):
            return (tuple(result._underlying) == tuple(value if x is None else x for x in self._underlying)
                    and result._dtype == DataType(self._dtype.kind, False))
        return (tuple(result._underlying) == tuple(value if x is None else S.convert_value(type(value), x) for x in self._underlying)
                and result._dtype == DataType(type(value), False))


@contract('serif.vector.Vector.to_object', props=['C03', 'C18'])
class to_object:
    c03 = True
    params = {'self': 'vector'}

    def ensures(self, result):
        return (tuple(result._underlying) == tuple(self._underlying) and result._dtype.kind is object
                and result._name == self._name and result._display_as_row == self._display_as_row)


@contract('serif.vector.Vector.T', props=['C18', 'C03'])
class vector_T:
    c03 = True
    params = {'self': 'vector'}

    def requires(self):
        return S.truthful(self)

    def returns(self):
        return vec(self._underlying, self._dtype, self._name, not self._display_as_row)


@contract('serif.vector.Vector.__invert__', props=['C05', 'C06', 'C03'])
class invert:
    params = {'self': 'vector'}

    def requires(self):
        return self._dtype is None or S.valid_dtype(self._dtype)

    def ensures(self, result):
        if self._dtype is not None and self._dtype.kind is bool:
            return (tuple(result._underlying) == tuple(None if x is None else (not x) for x in self._underlying)
                    and result._dtype == self._dtype and result._name == self._name)
        return S.same_view(result, S.unary_spec(self, operator.invert))


# ------------------------------------------------------------------ C05 / C18 dates + days
from datetime import date as _date  # noqa: E402


@contract('serif.vector._Date.__add__', props=['C05', 'C06', 'C18'], variant='days')
class date_add_days:
    """C05: dates + days is elementwise `date.fromordinal(d.toordinal() + n)`, None staying None;
    C18: the result of vector arithmetic is unnamed."""
    params = {'self': 'vector', 'other': 'alt:int|intvec'}
    raises = [(ValueError, lambda self, other: isinstance(other, Vector) and len(other._underlying) != len(self._underlying), True)]

    def returns(self, other):
        if isinstance(other, Vector):
            return vec_inferred([None if (s is None or y is None) else _date.fromordinal(s.toordinal() + y)
                                 for s, y in zip(self._underlying, other._underlying)], None, False)
        return vec_inferred([None if s is None else _date.fromordinal(s.toordinal() + other) for s in self._underlying], None, False)


# ------------------------------------------------------------------ empty operands (R7_C18_a)
@contract('serif.vector.Vector._elementwise_operation', props=['C18', 'C05'], variant='empty')
class elementwise_operation_empty(elementwise_operation):
    """C18/C05 for EMPTY operands: the result of arithmetic on empty vectors is an empty, UNNAMED
    vector typed by inference, like every other arithmetic result."""

    def requires(self, other):
        return _operand_ok(other) and len(self._underlying) == 0

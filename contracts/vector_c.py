"""Contracts for serif/vector.py."""
from pyvc.contract import contract, lemma
from serif.typing import DataType
from contracts.specs import vec, vec_inferred, copy_spec


@contract('serif.typeutils.slice_length', props=['C07', 'C08'])
class slice_length:
    """C07: length of v[slice] for every start/stop/step (incl. empty, out-of-range, reversed)."""
    params = {'s': 'slice', 'sequence_length': 'nat'}
    raises = [(ValueError, lambda s: s.step is not None and s.step == 0, True)]

    def returns(s, sequence_length):
        return len(range(sequence_length)[s])


@contract('serif.vector.Vector.copy', props=['C07', 'C01', 'C18'])
class copy:
    c03 = True
    params = {'self': 'vector', 'new_values': 'alt:none|seq_any|gen_any', 'name': 'alt:ellipsis|name'}

    def requires(self, new_values):
        # C03: the values handed over belong to the vector's dtype (every call site proves this)
        if new_values is None:
            return S.truthful(self)
        return all(S.truthful_elem(e, self._dtype) for e in new_values)

    def returns(self, new_values, name):
        return copy_spec(self, new_values, name)


from contracts.specs import getitem_spec, is_bool_mask  # noqa: E402


@contract('serif.vector.Vector.__getitem__', props=['C07', 'C18', 'C03'])
class getitem:
    """C07: v[i] is the i-th element, v[slice] equals list slicing for every start/stop/step,
    v[mask] keeps exactly the True positions in order; dtype kind and name kept."""
    c03 = True
    params = {'self': 'vector', 'key': 'alt:int|slice|boolvec|list_bool'}

    def requires(self, key):
        return S.truthful(self) and (isinstance(key, (int, slice)) or is_bool_mask(key))

    def _bad_index(self, key):
        return isinstance(key, int) and not (-len(self._underlying) <= key < len(self._underlying))

    def _bad_step(key):
        return isinstance(key, slice) and key.step is not None and key.step == 0

    def _bad_mask(self, key):
        return is_bool_mask(key) and len(key) != len(self._underlying)
    raises = [(IndexError, _bad_index, True), (ValueError, lambda self, key: getitem._bad_step(key) or getitem._bad_mask(self, key), True)]

    def returns(self, key):
        return getitem_spec(self, key)


import operator  # noqa: E402
from contracts.specs import compare_spec, arith_spec, length_mismatch, is_plain_scalar  # noqa: E402
from serif.vector import Vector  # noqa: E402


def _operand_ok(other):
    return isinstance(other, (Vector, list)) or is_plain_scalar(other)


@contract('serif.vector.Vector._elementwise_compare', props=['C06', 'C07', 'C18', 'C03'])
class elementwise_compare:
    """C06/C07: comparison is False at a None position, otherwise Python's own comparison of
    the i-th operands, result a non-nullable bool vector; unequal lengths raise."""
    c03 = True
    params = {'self': 'vector', 'other': 'alt:vector|list_any|scalar', 'op': 'func2'}

    def requires(other):
        return _operand_ok(other)
    raises = [(ValueError, length_mismatch, True)]

    def returns(self, other, op):
        return compare_spec(self, other, op)


def _make_compare(dunder, opfn):
    class spec:
        params = {'self': 'vector', 'other': 'alt:vector|list_any|scalar'}

        def requires(other):
            return _operand_ok(other)
        raises = [(ValueError, length_mismatch, True)]

        def returns(self, other):
            return compare_spec(self, other, opfn)
    spec.__name__ = dunder
    contract(f'serif.vector.Vector.{dunder}', props=['C07', 'C06'])(spec)


for _d, _o in [('__eq__', operator.eq), ('__ne__', operator.ne), ('__lt__', operator.lt),
               ('__le__', operator.le), ('__gt__', operator.gt), ('__ge__', operator.ge),
               ('__and__', operator.and_), ('__or__', operator.or_), ('__xor__', operator.xor),
               ('__rand__', operator.and_), ('__ror__', operator.or_), ('__rxor__', operator.xor)]:
    _make_compare(_d, _o)


from contracts import specs as S  # noqa: E402


@contract('serif.vector.Vector._elementwise_operation', props=['C05', 'C06', 'C18', 'C03', 'C04'])
class elementwise_operation:
    """C05: same length, element i = op(self_i, other_i) in written order, None propagates,
    unnamed, dtype by inference on the result; unequal lengths raise."""
    params = {'self': 'vector', 'other': 'alt:vector|list_any|scalar', 'op_func': 'func2',
              'op_name': 'str', 'op_symbol': 'str'}
    note = 'scalar operator applications are uninterpreted and assumed defined (the quantifier: "all values for which Python itself defines the scalar operation")'

    def requires(other):
        return _operand_ok(other)
    raises = [(ValueError, length_mismatch, True)]

    def returns(self, other, op_func):
        return arith_spec(self, other, op_func)


def _make_arith(dunder, opfn, note=''):
    class spec:
        params = {'self': 'vector', 'other': 'alt:vector|list_any|scalar'}

        def requires(other):
            return _operand_ok(other)
        raises = [(ValueError, length_mismatch, True)]

        def returns(self, other):
            return arith_spec(self, other, opfn)
    spec.__name__ = dunder
    spec.note = note
    contract(f'serif.vector.Vector.{dunder}', props=['C05', 'C06', 'C03'])(spec)


for _d, _o in [('__add__', operator.add), ('__sub__', operator.sub), ('__mul__', operator.mul),
               ('__truediv__', operator.truediv), ('__floordiv__', operator.floordiv),
               ('__mod__', operator.mod), ('__pow__', operator.pow),
               ('__radd__', S.r_add), ('__rsub__', S.r_sub), ('__rtruediv__', S.r_truediv),
               ('__rfloordiv__', S.r_floordiv), ('__rmod__', S.r_mod), ('__rpow__', S.r_pow),
               ('bit_lshift', operator.lshift), ('bit_rshift', operator.rshift)]:
    _make_arith(_d, _o)
_make_arith('__rmul__', operator.mul, note='trusted: * is commutative on builtin scalars (other * x == x * other); validated on the value pool by the stand-in')


@contract('serif.vector.Vector._unary_operation', props=['C05', 'C06', 'C03', 'C18'])
class unary_operation:
    params = {'self': 'vector', 'op_func': 'func1', 'op_name': 'str'}

    def returns(self, op_func):
        return S.unary_spec(self, op_func)


def _make_unary(dunder, opfn):
    class spec:
        params = {'self': 'vector'}

        def returns(self):
            return S.unary_spec(self, opfn)
    spec.__name__ = dunder
    contract(f'serif.vector.Vector.{dunder}', props=['C05', 'C06', 'C03'])(spec)


for _d, _o in [('__neg__', operator.neg), ('__pos__', operator.pos), ('__abs__', operator.abs)]:
    _make_unary(_d, _o)


# ------------------------------------------------------------------ C06 reductions (1-D vectors)
@contract('serif.vector.Vector.sum', props=['C06', 'C12'])
class v_sum:
    params = {'self': 'vector'}

    def returns(self):
        return S.sum_spec(self._underlying)


@contract('serif.vector.Vector.mean', props=['C06', 'C12'])
class v_mean:
    params = {'self': 'vector'}

    def returns(self):
        return S.mean_spec(self._underlying)


@contract('serif.vector.Vector.min', props=['C06', 'C12'])
class v_min:
    """None is skipped; defined by the statement for vectors holding at least one value."""
    params = {'self': 'vector'}

    def requires(self):
        return S.has_value(self._underlying)

    def returns(self):
        return S.min_spec(self._underlying)


@contract('serif.vector.Vector.max', props=['C06', 'C12'])
class v_max:
    params = {'self': 'vector'}

    def requires(self):
        return S.has_value(self._underlying)

    def returns(self):
        return S.max_spec(self._underlying)


@contract('serif.vector.Vector.stdev', props=['C06', 'C12'])
class v_stdev:
    params = {'self': 'vector', 'population': 'bool'}

    def returns(self, population):
        return S.stdev_spec(self._underlying, population)


@contract('serif.vector.Vector.any', props=['C06'])
class v_any:
    params = {'self': 'vector'}

    def returns(self):
        return any(v for v in self._underlying if v is not None)


@contract('serif.vector.Vector.all', props=['C06'])
class v_all:
    params = {'self': 'vector'}

    def returns(self):
        return all(v for v in self._underlying if v is not None)


@contract('serif.vector.Vector.__len__', props=['C06', 'C02'])
class v_len:
    """len() counts None."""
    params = {'self': 'vector'}
    inline = True

    def returns(self):
        return len(self._underlying)


@contract('serif.vector.Vector.isna', props=['C06', 'C03'])
class v_isna:
    c03 = True
    params = {'self': 'vector'}

    def returns(self):
        return vec([x is None for x in self._underlying], DataType(bool, False), None, False)


@contract('serif.vector.Vector.dropna', props=['C06', 'C03'])
class v_dropna:
    """dropna removes exactly the positions isna marks and reports itself non-nullable."""
    c03 = True
    params = {'self': 'vector'}

    def requires(self):
        return S.truthful(self)

    def returns(self):
        values = [x for x in self._underlying if x is not None]
        if self._dtype is None:
            return vec(values, None, None, False)
        return vec(values, DataType(self._dtype.kind, False), None, False)


# ------------------------------------------------------------------ C05 broadcast methods / properties
import inspect as _inspect  # noqa: E402
import serif.vector as _sv  # noqa: E402


@contract('serif.vector.MethodProxy.__call__', props=['C05', 'C06', 'C03'])
class methodproxy_call:
    """C05: v.method(*args) == [e.method(*args) for e], None staying None - for EVERY method name
    (the name is a symbolic constant) and every argument bundle."""
    params = {'self': 'methodproxy', 'args': 'opaque', 'kwargs': 'opaque'}

    def returns(self, args, kwargs):
        return S.broadcast_method_spec(self._vector._underlying, self._method_name, args, kwargs)


def _make_wrapper(cls, mname, fn):
    sig = _inspect.signature(fn)
    has_var = any(p.kind == p.VAR_POSITIONAL for p in sig.parameters.values())

    class spec:
        params = {'self': 'vector', 'args': 'opaque', 'kwargs': 'opaque'} if has_var else {'self': 'vector'}
        if has_var:
            def returns(self, args, kwargs):
                return S.broadcast_method_spec(self._underlying, mname, args, kwargs)
        else:
            def returns(self):
                return S.broadcast_method_spec(self._underlying, mname, (), {})
    spec.__name__ = f'{cls.__name__}_{mname}'
    spec.__doc__ = f'C05: {cls.__name__}.{mname} broadcasts the element method of the same name.'
    contract(f'serif.vector.{cls.__name__}.{mname}', props=['C05', 'C06'])(spec)


_SPECIAL = {'__init__', '_elementwise_compare', '__add__', 'eomonth', 'before', 'after', 'before_last', 'after_last'}
for _cls in (_sv._String, _sv._Date):
    for _n, _f in list(_cls.__dict__.items()):
        if callable(_f) and _n not in _SPECIAL and not _n.startswith('__'):
            _make_wrapper(_cls, _n, _f)


def _make_partition(mname, pm, idx):
    class spec:
        params = {'self': 'vector', 'sep': 'str'}

        def returns(self, sep):
            return vec_inferred([None if s is None else getattr(s, pm)(sep)[idx] for s in self._underlying], None, False)
    spec.__name__ = f'_String_{mname}'
    contract(f'serif.vector._String.{mname}', props=['C05', 'C06'])(spec)


for _m, _pm, _ix in [('before', 'partition', 0), ('after', 'partition', 2), ('before_last', 'rpartition', 0), ('after_last', 'rpartition', 2)]:
    _make_partition(_m, _pm, _ix)

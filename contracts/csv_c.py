"""Contracts for serif/csv.py (C19).  csv.reader (the lexical layer) is trusted: the statement
defines it as "as the csv module defines them"."""
from pyvc.contract import contract
from contracts import specs as S


@contract('serif.csv._infer_type', props=['C19'])
class infer_type:
    params = {'value': 'str'}
    note = 'int()/float() acceptance of a string is an uninterpreted partial function shared by code and spec ("if int() accepts its stripped text")'

    def returns(value):
        return S.csv_cell(value)

"""Contracts for serif/csv.py (C19).  csv.reader (the lexical layer) is trusted: the statement
defines it as "as the csv module defines them"."""
from pyvc.contract import contract
from contracts import specs as S


@contract('serif.csv._infer_type', props=['C19'])
class infer_type:
    params = {'value': 'str'}
    note = 'int()/float() acceptance of a string is an uninterpreted partial function shared by code and spec ("if int() accepts its stripped text")'

    def returns(value):
        return S.csv_cell(value)


# ------------------------------------------------------------------ _read_csv_from_file (C19)
from pyvc.contract import exit_assert  # noqa: E402
from contracts.specs import implies  # noqa: E402

RCF = 'serif.csv._read_csv_from_file'


def _setup_width(k):
    def setup(I):
        from pyvc.loops import fresh_of_sort
        I.csv_first_row_width = k
        return {'file_obj': fresh_of_sort(I, 'opaque', 'file_obj'), 'delimiter': fresh_of_sort(I, 'str', 'delimiter'),
                'has_header': fresh_of_sort(I, 'bool', 'has_header')}
    return setup


@exit_assert(RCF)
def rcf_exit(result, any_int_R, all_rows=None, has_header=None, header=None, rows=None):
    """Faithfulness of the assembly, for an arbitrary data row R: no records -> an empty table;
    otherwise one column per cell of the first record, named by the header cells (or col_<i>), with
    one row per data record, and cell (R, j) is the typed value of the text of cell j of that
    record (`csv_cell`: blank -> None, int, float, else the stripped text), or None when the
    record is too short - records are never dropped, merged or reordered, cells never shifted."""
    if all_rows is None:
        return True
    n = S.csv_nrows(all_rows)
    if n == 0:
        return len(result._underlying) == 0
    k = len(header)
    first = 1 if has_header else 0
    ndata = n - first
    if len(result._underlying) != k:
        return False
    if not all(len(result._underlying[j]._underlying) == ndata for j in range(k)):
        return False
    if has_header:
        if not all(result._underlying[j]._name == S.csv_text(all_rows, 0, j) for j in range(k)):
            return False
    R = any_int_R
    if not (0 <= R < ndata):
        return True
    rec = R + first
    return all(
        S.same(S.at(result._underlying[j]._underlying, R),
               S.csv_cell(S.csv_text(all_rows, rec, j)) if j < S.csv_rowlen(all_rows, rec) else None)
        for j in range(k))


@contract(RCF, props=['C19'], variant='two-columns')
class read_csv_from_file_2:
    """C19 (assembly of the records into a table; first record of two cells, any number of records
    of any lengths, with or without header): exit assertion `rcf_exit` on the real text, with
    `csv.reader` as the trusted lexical layer and `_infer_type` by its discharged contract."""
    params = {'file_obj': 'opaque', 'delimiter': 'str', 'has_header': 'bool'}
    setup = _setup_width(2)
    quant_prune = False


@contract(RCF, props=['C19'], variant='one-column')
class read_csv_from_file_1(read_csv_from_file_2):
    """C19 (assembly, first record of ONE cell): blank lines / one-column files."""
    setup = _setup_width(1)


@contract(RCF, props=['C19'], variant='three-columns')
class read_csv_from_file_3(read_csv_from_file_2):
    """C19 (assembly, first record of THREE cells)."""
    setup = _setup_width(3)
    tier = 'thorough'

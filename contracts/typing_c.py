"""Contracts for serif/typing.py and serif/typeutils.py (C03, C04, C07, C08)."""
from datetime import date, datetime

from pyvc.contract import contract, lemma, loop_invariant
from serif.typing import DataType
from contracts.specs import (join, kind_of, valid_dtype, promote_spec, infer_step, infer_state,
                             infer_result, infer_spec, INFER_INIT, NUM, TEMPORAL, belongs,
                             accepts, coerce, num_rank)


@contract('serif.typing.DataType.with_nullable', props=['C04', 'C06'])
class with_nullable:
    params = {'self': 'dtype', 'nullable': 'bool'}
    total = True

    def returns(self, nullable):
        return DataType(self.kind, nullable)


@contract('serif.typing.DataType.is_numeric', props=['C04'])
class is_numeric:
    params = {'self': 'dtype'}
    total = True

    def requires(self):
        return valid_dtype(self)

    def returns(self):
        return self.kind in NUM


@contract('serif.typing.DataType.is_temporal', props=['C04'])
class is_temporal:
    params = {'self': 'dtype'}
    total = True

    def requires(self):
        return valid_dtype(self)

    def returns(self):
        return self.kind in TEMPORAL


@contract('serif.typing.DataType.promote_with', props=['C04', 'C03', 'C08'])
class promote_with:
    """C04: kinds join along the two ladders, identical kinds stay, None only adds
    nullability, any other mixture yields object."""
    params = {'self': 'dtype', 'value': 'any'}
    total = True

    def requires(self):
        return valid_dtype(self)

    def returns(self, value):
        return promote_spec(self, value)


@contract('serif.typing.infer_kind', props=['C04', 'C03'])
class infer_kind:
    params = {'value': 'any'}
    total = True

    def returns(value):
        if value is None:
            return None
        return kind_of(value)


@contract('serif.typing.infer_dtype', props=['C04', 'C03'])
class infer_dtype:
    """C04: the inferred dtype is the fold of the lattice step over the values; with the
    commutation/idempotence lemmas below it depends only on the set of types and on the
    presence of None."""
    params = {'values': 'seq_any'}
    total = True

    def returns(values):
        return infer_spec(values)


@contract('serif.typing.validate_scalar', props=['C08', 'C03'])
class validate_scalar:
    """C08/C03: a value is accepted iff it belongs to the column's kind (documented
    widenings only; object accepts everything; None iff nullable)."""
    params = {'value': 'any', 'dtype': 'dtype'}

    def requires(dtype):
        return valid_dtype(dtype)

    def _rejects(value, dtype):
        return not accepts(value, dtype)
    raises = [(TypeError, _rejects, True)]

    def returns(value, dtype):
        return coerce(value, dtype)


# ---------------------------------------------------------------- lemmas (C04)
@lemma('join-commutative', props=['C04'])
class l_join_comm:
    params = {'a': 'kind', 'b': 'kind'}

    def statement(a, b):
        return join(a, b) is join(b, a)


@lemma('join-associative', props=['C04'])
class l_join_assoc:
    params = {'a': 'kind', 'b': 'kind', 'c': 'kind'}

    def statement(a, b, c):
        return join(join(a, b), c) is join(a, join(b, c))


@lemma('join-idempotent', props=['C04'])
class l_join_idem:
    params = {'a': 'kind'}

    def statement(a):
        return join(a, a) is a


@lemma('promote-never-narrows', props=['C04'])
class l_never_narrows:
    """join(k, t) is an upper bound of both arguments: promotion never narrows."""
    params = {'d': 'dtype', 'v': 'any'}

    def requires(d):
        return valid_dtype(d)

    def statement(d, v):
        r = promote_spec(d, v)
        if v is None:
            return r.kind is d.kind and r.nullable
        return join(r.kind, d.kind) is r.kind and join(r.kind, kind_of(v)) is r.kind


@lemma('promote-keeps-nullable', props=['C04'])
class l_keeps_nullable:
    params = {'d': 'dtype', 'v': 'any'}

    def requires(d):
        return valid_dtype(d)

    def statement(d, v):
        r = promote_spec(d, v)
        return r.nullable or not d.nullable


@lemma('promote-idempotent', props=['C04'])
class l_promote_idem:
    params = {'d': 'dtype', 'v': 'any'}

    def requires(d):
        return valid_dtype(d)

    def statement(d, v):
        r = promote_spec(d, v)
        return promote_spec(r, v) == r


@lemma('infer-step-commutes', props=['C04'])
class l_step_comm:
    """Swapping two adjacent elements does not change the fold state; adjacent swaps
    generate every permutation, so inference is order independent."""
    params = {'st': 'tuple:bool,kind,bool', 'a': 'any', 'b': 'any'}

    def requires(st):
        return st[1] is not type(None)

    def statement(st, a, b):
        return infer_result(infer_step(infer_step(st, a), b)) == infer_result(infer_step(infer_step(st, b), a))


@lemma('infer-step-commutes-state', props=['C04'])
class l_step_comm_state:
    params = {'st': 'tuple:bool,kind,bool', 'a': 'any', 'b': 'any'}

    def requires(st):
        return st[1] is not type(None) and (st[0] or st[1] is object)

    def statement(st, a, b):
        return infer_step(infer_step(st, a), b) == infer_step(infer_step(st, b), a)


@lemma('infer-step-absorbs-repeats', props=['C04'])
class l_step_idem:
    """A repeated element changes nothing: the result depends on the set of elements,
    not on multiplicities or length."""
    params = {'st': 'tuple:bool,kind,bool', 'a': 'any'}

    def requires(st):
        return st[1] is not type(None)

    def statement(st, a):
        return infer_step(infer_step(st, a), a) == infer_step(st, a)


@lemma('infer-step-depends-on-type-only', props=['C04'])
class l_step_type_only:
    """Two values of the same type (or both None) drive the state identically."""
    params = {'st': 'tuple:bool,kind,bool', 'a': 'any', 'b': 'any'}

    def requires(a, b):
        return type(a) is type(b)

    def statement(st, a, b):
        return infer_step(st, a) == infer_step(st, b)


@lemma('infer-upper-bound', props=['C03'])
class l_infer_upper:
    """C03 via C04: after folding an element in, that element belongs to the state kind
    and every later step keeps it belonging (join is monotone)."""
    params = {'st': 'tuple:bool,kind,bool', 'a': 'any', 'b': 'any'}

    def requires(st, a):
        return st[1] is not type(None) and a is not None

    def statement(st, a, b):
        s1 = infer_step(st, a)
        s2 = infer_step(s1, b)
        return belongs(type(a), s1[1]) and belongs(type(a), s2[1]) and s1[0] and s2[0]


@lemma('infer-none-nullable', props=['C03'])
class l_infer_none:
    params = {'st': 'tuple:bool,kind,bool', 'b': 'any'}

    def statement(st, b):
        s1 = infer_step(st, None)
        s2 = infer_step(s1, b)
        return s1[2] and s2[2]


@lemma('belongs-monotone', props=['C03'])
class l_belongs_mono:
    params = {'t': 'kind', 'k': 'kind', 'u': 'kind'}

    def requires(t, k):
        return belongs(t, k)

    def statement(t, k, u):
        return belongs(t, join(k, u))

"""Contracts for serif/table.py."""
from pyvc.contract import contract, lemma
from serif.errors import SerifValueError
from contracts import specs as S


def _make_flags(fn):
    class spec:
        """C11: the uniqueness flags computed from `expect` are the ones the statement names,
        and any other expect value is rejected."""
        params = {'expect': 'str'}
        slice_vars = ['check_right_unique', 'check_left_unique']
        raises = [(SerifValueError, lambda expect: expect not in S.VALID_EXPECT, True)]

        def returns(expect):
            return (S.need_right_unique(expect), S.need_left_unique(expect))
    spec.__name__ = fn + '_flags'
    contract(f'serif.table.Table.{fn}', props=['C11'])(spec)


for _f in ('inner_join', 'join', 'full_join'):
    _make_flags(_f)


@contract('serif.table.Table.sort_by.<locals>.key_fn', props=['C14'])
class sort_key_fn:
    """C14: the per-row sort key is (placement flag, value)."""
    nested = ('serif.table.Table.sort_by', 'key_fn', 0)
    closure = {'data': 'seq_any', 'rev': 'bool', 'na_last': 'bool'}
    params = {'i': 'int'}

    def requires(i, data):
        return 0 <= i < len(data)

    def returns(i, data, rev, na_last):
        return (S.place_flag(data[i] is None, rev, na_last), data[i])


@lemma('sort-none-placement', props=['C14'])
class l_none_placement:
    """For x = None and y != None the flags alone decide the order: y comes before x iff
    na_last, for both directions; so `<` is never applied to None."""
    params = {'rev': 'bool', 'na_last': 'bool'}

    def statement(rev, na_last):
        fx = S.place_flag(True, rev, na_last)
        fy = S.place_flag(False, rev, na_last)
        return fx != fy and S.before_after_sort(fy, fx, rev) == na_last and S.before_after_sort(fx, fy, rev) == (not na_last)


@lemma('sort-flag-ties-among-same-nullness', props=['C14'])
class l_flag_ties:
    """Two None keys (or two non-None keys) get the same flag: the values decide, and two
    None keys tie (stable order kept)."""
    params = {'rev': 'bool', 'na_last': 'bool', 'n': 'bool'}

    def statement(rev, na_last, n):
        return S.place_flag(n, rev, na_last) == S.place_flag(n, rev, na_last)


@contract('serif.table._resolve_binary_name', props=['C18'])
class resolve_binary_name:
    params = {'left_name': 'name', 'right_name': 'name'}

    def ensures(left_name, right_name, result):
        return result[0] == S.binary_name(left_name, right_name) if S.binary_name(left_name, right_name) is not None \
            else result[0] is None


# ------------------------------------------------------------------ C12 / C13 group aggregators
def _make_agg(outer, inner, ordinal, specfn, tag, props):
    class spec:
        """Each built-in aggregate equals the textbook function over the group's non-None
        values in row order (empty: 0 for sum/count, None otherwise; stdev of <2 values None)."""
        nested = (f'serif.table.Table.{outer}', inner, ordinal)
        closure = {'d': 'seq_any'} if outer == 'aggregate' else {}
        params = {'vals': 'list_any'}

        def returns(vals):
            return specfn(vals)
    spec.__name__ = f'{outer}_{tag}'
    contract(f'serif.table.Table.{outer}.<locals>.{tag}', props=props)(spec)


_make_agg('aggregate', '<lambda>', 0, S.sum_spec, 'sum_lambda', ['C12', 'C06'])
_make_agg('aggregate', 'mean_func', 0, S.mean_spec, 'mean_func', ['C12', 'C06'])
_make_agg('aggregate', 'min_func', 0, S.min_spec, 'min_func', ['C12', 'C06'])
_make_agg('aggregate', 'max_func', 0, S.max_spec, 'max_func', ['C12', 'C06'])
_make_agg('aggregate', '<lambda>', 1, S.count_spec, 'count_lambda', ['C12', 'C06'])
_make_agg('aggregate', 'stdev_func', 0, S.stdev_spec, 'stdev_func', ['C12', 'C06'])
for _i, (_t, _s) in enumerate([('sum', S.sum_spec), ('mean', S.mean_spec), ('min', S.min_spec),
                               ('max', S.max_spec), ('count', S.count_spec), ('stdev', S.stdev_spec)]):
    _make_agg('window', 'fn', _i, _s, f'fn_{_t}', ['C13', 'C06'])

"""Contracts for serif/table.py."""
from pyvc.contract import contract, lemma
from serif.errors import SerifValueError
from contracts import specs as S


def _make_flags(fn):
    class spec:
        """C11: the uniqueness flags computed from `expect` are the ones the statement names,
        and any other expect value is rejected."""
        params = {'expect': 'str'}
        slice_vars = ['check_right_unique', 'check_left_unique']
        raises = [(SerifValueError, lambda expect: expect not in S.VALID_EXPECT, True)]

        def returns(expect):
            return (S.need_right_unique(expect), S.need_left_unique(expect))
    spec.__name__ = fn + '_flags'
    contract(f'serif.table.Table.{fn}', props=['C11'])(spec)


for _f in ('inner_join', 'join', 'full_join'):
    _make_flags(_f)


@contract('serif.table.Table.sort_by.<locals>.key_fn', props=['C14'])
class sort_key_fn:
    """C14: the per-row sort key is (placement flag, value)."""
    nested = ('serif.table.Table.sort_by', 'key_fn', 0)
    closure = {'data': 'seq_any', 'rev': 'bool', 'na_last': 'bool'}
    params = {'i': 'int'}

    def requires(i, data):
        return 0 <= i < len(data)

    def returns(i, data, rev, na_last):
        return (S.place_flag(data[i] is None, rev, na_last), data[i])


@lemma('sort-none-placement', props=['C14'])
class l_none_placement:
    """For x = None and y != None the flags alone decide the order: y comes before x iff
    na_last, for both directions; so `<` is never applied to None."""
    params = {'rev': 'bool', 'na_last': 'bool'}

    def statement(rev, na_last):
        fx = S.place_flag(True, rev, na_last)
        fy = S.place_flag(False, rev, na_last)
        return fx != fy and S.before_after_sort(fy, fx, rev) == na_last and S.before_after_sort(fx, fy, rev) == (not na_last)


@lemma('sort-flag-ties-among-same-nullness', props=['C14'])
class l_flag_ties:
    """Two None keys (or two non-None keys) get the same flag: the values decide, and two
    None keys tie (stable order kept)."""
    params = {'rev': 'bool', 'na_last': 'bool', 'n': 'bool'}

    def statement(rev, na_last, n):
        return S.place_flag(n, rev, na_last) == S.place_flag(n, rev, na_last)


@contract('serif.table._resolve_binary_name', props=['C18'])
class resolve_binary_name:
    params = {'left_name': 'name', 'right_name': 'name'}

    def ensures(left_name, right_name, result):
        return result[0] == S.binary_name(left_name, right_name) if S.binary_name(left_name, right_name) is not None \
            else result[0] is None


# ------------------------------------------------------------------ C12 / C13 group aggregators
def _make_agg(outer, inner, ordinal, specfn, tag, props):
    class spec:
        """Each built-in aggregate equals the textbook function over the group's non-None
        values in row order (empty: 0 for sum/count, None otherwise; stdev of <2 values None)."""
        nested = (f'serif.table.Table.{outer}', inner, ordinal)
        closure = {'d': 'seq_any'} if outer == 'aggregate' else {}
        params = {'vals': 'list_any'}

        def returns(vals):
            return specfn(vals)
    spec.__name__ = f'{outer}_{tag}'
    contract(f'serif.table.Table.{outer}.<locals>.{tag}', props=props)(spec)


_make_agg('aggregate', '<lambda>', 0, S.sum_spec, 'sum_lambda', ['C12', 'C06'])
_make_agg('aggregate', 'mean_func', 0, S.mean_spec, 'mean_func', ['C12', 'C06'])
_make_agg('aggregate', 'min_func', 0, S.min_spec, 'min_func', ['C12', 'C06'])
_make_agg('aggregate', 'max_func', 0, S.max_spec, 'max_func', ['C12', 'C06'])
_make_agg('aggregate', '<lambda>', 1, S.count_spec, 'count_lambda', ['C12', 'C06'])
_make_agg('aggregate', 'stdev_func', 0, S.stdev_spec, 'stdev_func', ['C12', 'C06'])
for _i, (_t, _s) in enumerate([('sum', S.sum_spec), ('mean', S.mean_spec), ('min', S.min_spec),
                               ('max', S.max_spec), ('count', S.count_spec), ('stdev', S.stdev_spec)]):
    _make_agg('window', 'fn', _i, _s, f'fn_{_t}', ['C13', 'C06'])


# ------------------------------------------------------------------ C02 rectangular tables
from serif.table import Table  # noqa: E402


@contract('serif.table.Table._build_column_map', props=[])
class build_column_map:
    """Accessor map (C17: bounded + pylang + pyframe); at the value level an opaque cache value.
    Writes only the cache flag _wild of the columns."""
    params = {'self': 'opaque'}
    trusted = True
    result_sort = 'opaque'


def _ragged(initial):
    return len({len(v._underlying) for v in initial}) > 1


@contract('serif.table.Table.__init__', props=['C02', 'C18', 'C01'])
class table_init:
    """C02: a table built from vectors is rectangular (every column has the table's length) or
    the input is rejected; C18/C01: column j is a fresh copy of input j with its name, dtype
    and values."""
    params = {'self': 'rawtable',
              'initial': 'alt:listof:0:vector|listof:1:vector|listof:2:vector|listof:3:vector|tupleof:2:vector',
              'dtype': 'none', 'name': 'name', 'as_row': 'bool'}
    note = 'column count bounded to 0..3 (concrete); row count, values, names and dtypes arbitrary'

    def requires(initial):
        return all(S.truthful(v) for v in initial)
    raises = [(SerifValueError, _ragged, True)]

    def ensures(self, initial):
        cols = self._underlying
        if len(cols) != len(initial):
            return False
        if len(initial) == 0:
            return self._length == 0
        return all(len(c._underlying) == self._length
                   and tuple(c._underlying) == tuple(v._underlying)
                   and c._dtype == v._dtype and c._name == v._name and c is not v
                   for c, v in zip(cols, initial))


# ------------------------------------------------------------------ names / column resolution
@contract('serif.naming._sanitize_user_name', props=[])
class sanitize_user_name:
    """Trusted at call sites as a deterministic function of the name (its output language is
    decided separately by pylang under C17)."""
    params = {'name': 'any'}
    trusted = True

    def returns(name):
        return S.sanitize_name(name)


@contract('serif.table.Table.__getitem__', props=[])
class table_getitem:
    """Assumed at call sites (bounded under C07/C17): a deterministic lookup."""
    params = {'self': 'opaque', 'key': 'any'}
    trusted = True
    result_sort = 'opaque'


@contract('serif.table.Table._resolve_column', props=['C14', 'C12', 'C13', 'C09'])
class resolve_column:
    """A key / value column given as a Vector IS that vector (never swapped for a table column
    of the same name); a string goes through the table's own name lookup; anything else is
    rejected."""
    params = {'self': 'alt:table0|table2', 'spec': 'alt:vector|int|none'}
    from serif.errors import SerifTypeError as _E
    from serif.vector import Vector as _V
    raises = [(_E, lambda spec: not isinstance(spec, (str, resolve_column._V)), True)]

    def returns(spec):
        return spec


def _ragged_cols(columns):
    return len({len(v._underlying) for v in columns}) > 1


@contract('serif.vector.Vector._stack_columns', props=['C02', 'C01'])
class stack_columns:
    """C02: columns side by side; unequal lengths are rejected rather than stored."""
    params = {'columns': 'alt:tupleof:2:vector|tupleof:3:vector|listof:2:vector'}

    def requires(columns):
        return all(S.truthful(v) for v in columns)
    raises = [(SerifValueError, _ragged_cols, True)]

    def returns(columns):
        return Table(list(columns))

    def ensures(columns, result):
        return isinstance(result, Table) and S.rect(result) and S.same_cells(result, columns)


@contract('serif.table.Table.__len__', props=['C02'])
class table_len:
    params = {'self': 'alt:table0|table1|table2'}
    inline = True

    def requires(self):
        return S.rect(self)

    def returns(self):
        return self._length


def _make_rshift(variant, other_sort):
    class spec:
        """C02: >> appends columns and leaves existing ones untouched (fresh copies, same cells,
        names, dtypes); a column of another length is rejected."""
        params = {'self': 'alt:table1|table2', 'other': other_sort}

        def requires(self, other):
            return S.rect(self) and all(S.truthful(c) for c in self._underlying) and \
                (not isinstance(other, _V) or S.truthful(other))

        def _rag(self, other):
            return isinstance(other, _V) and len(other._underlying) != self._length
        raises = [(SerifValueError, _rag, True)]

        def ensures(self, other, result):
            return isinstance(result, Table) and S.rect(result) and \
                S.same_cells(result, list(self._underlying) + [other])
    spec.__name__ = 'table_rshift_' + str(variant)
    contract('serif.table.Table.__rshift__', props=['C02', 'C01', 'C18'], variant=variant)(spec)


from serif.vector import Vector as _V  # noqa: E402
_make_rshift(None, 'vector')


@contract('serif.table.Table.__lshift__', props=['C02'])
class table_lshift:
    """C02: << appends one row: every column gets exactly its cell appended, old cells untouched."""
    params = {'self': 'alt:table1|table2', 'other': 'alt:listof:1:scalar|listof:2:scalar'}

    def requires(self, other):
        return S.rect(self) and all(S.truthful(c) and c._dtype is not None and S.valid_dtype(c._dtype) for c in self._underlying)
    raises = [(ValueError, lambda self, other: len(other) != len(self._underlying), True)]

    def ensures(self, other, result):
        if not isinstance(result, Table) or len(result._underlying) != len(self._underlying):
            return False
        return S.rect(result) and result._length == self._length + 1 and \
            all(tuple(r._underlying) == tuple(list(c._underlying) + [x])
                for r, c, x in zip(result._underlying, self._underlying, other))


def _make_table_getitem(variant, key_sort):
    class spec:
        """C02/C07: the same row selection is applied to every column alike; column names and
        dtypes are kept; the result is rectangular."""
        params = {'self': 'alt:table1|table2|table3', 'key': key_sort}

        def requires(self, key):
            return S.rect(self) and all(S.truthful(c) for c in self._underlying) and \
                (isinstance(key, slice) or S.is_bool_mask(key))
        raises = [(ValueError, lambda key: isinstance(key, slice) and key.step is not None and key.step == 0, True),
                  (AssertionError, lambda self, key: (not isinstance(key, slice)) and len(key) != self._length, True)]

        def ensures(self, key, result):
            if not isinstance(result, Table) or len(result._underlying) != len(self._underlying):
                return False
            if isinstance(key, slice):
                return S.rect(result) and all(
                    tuple(r._underlying) == tuple(c._underlying[key]) and r._dtype == c._dtype and r._name == c._name
                    for r, c in zip(result._underlying, self._underlying))
            return S.rect(result) and all(
                tuple(r._underlying) == tuple([x for x, m in zip(c._underlying, key) if m])
                and r._dtype == c._dtype and r._name == c._name
                for r, c in zip(result._underlying, self._underlying))
    spec.__name__ = 'table_getitem_' + variant
    contract('serif.table.Table.__getitem__', props=['C02', 'C07', 'C18'], variant=variant)(spec)


_make_table_getitem('rows-slice', 'slice')
_make_table_getitem('rows-mask', 'alt:boolvec|list_bool')


# ------------------------------------------------------------------ C02 row views
def _make_row_access(variant):
    class spec:
        """C02: the i-th row obtained by indexing equals the tuple of the i-th values of the
        columns, in column order (and has one entry per column)."""
        params = {'self': 'alt:table1|table2|table3', 'key': 'int'}

        def requires(self, key):
            return S.rect(self) and 0 <= key < self._length and \
                all(c._dtype is not None and S.valid_dtype(c._dtype) for c in self._underlying)

        def ensures(self, key, result):
            return len(result) == len(self._underlying) and \
                tuple(result._underlying) == tuple(c._underlying[key] for c in self._underlying) and \
                tuple(result[j] for j in range(len(self._underlying))) == tuple(c._underlying[key] for c in self._underlying)
    spec.__name__ = 'table_getitem_' + variant
    contract('serif.table.Table.__getitem__', props=['C02'], variant=variant)(spec)


_make_row_access('row-int')

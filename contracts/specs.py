"""Spec functions, written from the property statements (not from the code).

Every function here is plain Python in the pyvc subset: the verifier executes it
symbolically, the bounded stand-ins and the replay runner execute it natively.
"""
from datetime import date, datetime
from functools import reduce as _reduce

from serif.typing import DataType

NUM = (bool, int, float, complex)
TEMPORAL = (date, datetime)


def fold(step, init, values, k):
    """Ghost: left fold of `step` over values[:k] (natively; symbolically an axiomatised fold)."""
    return _reduce(step, list(values)[:k], init)


# ------------------------------------------------------------------ C04 kind lattice
def num_rank(k):
    if k is bool:
        return 0
    if k is int:
        return 1
    if k is float:
        return 2
    return 3


def join(a, b):
    """Least upper bound of two kinds: bool<int<float<complex, date<datetime, else object."""
    if a is b:
        return a
    if a in NUM and b in NUM:
        if num_rank(a) >= num_rank(b):
            return a
        return b
    if a in TEMPORAL and b in TEMPORAL:
        return datetime
    return object


def kind_of(v):
    """The Python type of a non-None value (base domain: no subclasses of the ladders)."""
    return type(v)


def valid_dtype(d):
    return d.kind is not type(None)


def promote_spec(d, v):
    if v is None:
        return DataType(d.kind, True)
    return DataType(join(d.kind, kind_of(v)), d.nullable)


# infer state: (has, kind, nullable) ----------------------------------------------------
INFER_INIT = (False, object, False)


def infer_step(st, v):
    has, kind, nullable = st
    if v is None:
        return (has, kind, True)
    if not has:
        return (True, kind_of(v), nullable)
    return (True, join(kind, kind_of(v)), nullable)


def infer_state(values, k):
    return fold(infer_step, INFER_INIT, values, k)


def infer_result(st):
    has, kind, nullable = st
    if not has:
        return DataType(object, True)
    return DataType(kind, nullable)


def infer_spec(values):
    return infer_result(infer_state(values, len(values)))


# ------------------------------------------------------------------ C03 / C08 belonging
def belongs(t, k):
    """Type t counts as belonging to kind k (documented widenings only)."""
    if t is k:
        return True
    if k is object:
        return True
    if t in NUM and k in NUM:
        return num_rank(t) <= num_rank(k)
    if t is date and k is datetime:
        return True
    return False


def accepts(v, d):
    """Writing v into a column of dtype d is accepted without changing d."""
    if v is None:
        return d.nullable
    return belongs(type(v), d.kind)


def coerce(v, d):
    """The stored form of an accepted value."""
    if v is None:
        return None
    if type(v) is d.kind:
        return v
    if d.kind is object:
        return v
    if d.kind is float:
        return float(v)
    if d.kind is int:
        return int(v)
    if d.kind is complex:
        return complex(v)
    return datetime.combine(v, datetime.min.time())

"""Spec functions, written from the property statements (not from the code).

Every function here is plain Python in the pyvc subset: the verifier executes it
symbolically, the bounded stand-ins and the replay runner execute it natively.
"""
from datetime import date, datetime
from functools import reduce as _reduce

from serif.typing import DataType

NUM = (bool, int, float, complex)
TEMPORAL = (date, datetime)


def fold(step, init, values, k):
    """Ghost: left fold of `step` over values[:k] (natively; symbolically an axiomatised fold)."""
    return _reduce(step, list(values)[:k], init)


# ------------------------------------------------------------------ C04 kind lattice
def num_rank(k):
    if k is bool:
        return 0
    if k is int:
        return 1
    if k is float:
        return 2
    return 3


def join(a, b):
    """Least upper bound of two kinds: bool<int<float<complex, date<datetime, else object."""
    if a is b:
        return a
    if a in NUM and b in NUM:
        if num_rank(a) >= num_rank(b):
            return a
        return b
    if a in TEMPORAL and b in TEMPORAL:
        return datetime
    return object


def kind_of(v):
    """The Python type of a non-None value (base domain: no subclasses of the ladders)."""
    return type(v)


def valid_dtype(d):
    return d.kind is not type(None)


def promote_spec(d, v):
    if v is None:
        return DataType(d.kind, True)
    return DataType(join(d.kind, kind_of(v)), d.nullable)


# infer state: (has, kind, nullable) ----------------------------------------------------
INFER_INIT = (False, object, False)


def infer_step(st, v):
    has, kind, nullable = st
    if v is None:
        return (has, kind, True)
    if not has:
        return (True, kind_of(v), nullable)
    return (True, join(kind, kind_of(v)), nullable)


def infer_state(values, k):
    return fold(infer_step, INFER_INIT, values, k)


def infer_result(st):
    has, kind, nullable = st
    if not has:
        return DataType(object, True)
    return DataType(kind, nullable)


def infer_spec(values):
    return infer_result(infer_state(values, len(values)))


# ------------------------------------------------------------------ C03 / C08 belonging
def belongs(t, k):
    """Type t counts as belonging to kind k (documented widenings only)."""
    if t is k:
        return True
    if k is object:
        return True
    if t in NUM and k in NUM:
        return num_rank(t) <= num_rank(k)
    if t is date and k is datetime:
        return True
    return False


def accepts(v, d):
    """Writing v into a column of dtype d is accepted without changing d."""
    if v is None:
        return d.nullable
    return belongs(type(v), d.kind)


def coerce(v, d):
    """The stored form of an accepted value."""
    if v is None:
        return None
    if type(v) is d.kind:
        return v
    if d.kind is object:
        return v
    if d.kind is float:
        return float(v)
    if d.kind is int:
        return int(v)
    if d.kind is complex:
        return complex(v)
    return datetime.combine(v, datetime.min.time())


# ------------------------------------------------------------------ vectors (C07, C05, C06 ...)
from serif.vector import Vector  # noqa: E402


def vec(values, dtype, name, as_row):
    """A vector with exactly these values / dtype / name / row flag (explicit dtype: no inference)."""
    return Vector(tuple(values), dtype=dtype, name=name, as_row=as_row)


def vec_inferred(values, name, as_row):
    """A vector whose dtype is inferred from its values (None when empty)."""
    return Vector(tuple(values), name=name, as_row=as_row)


def copy_spec(self, new_values, name):
    """C07: the copy holds new_values whenever an argument was passed (including an empty
    selection), the vector's own values otherwise; dtype and row flag kept; name kept
    unless given."""
    if new_values is None:
        values = self._underlying
    else:
        values = new_values
    if name is ...:
        use = self._name
    else:
        use = name
    return vec(values, self._dtype, use, self._display_as_row)


def is_bool_mask(key):
    """A boolean mask: a non-nullable bool Vector, or a non-empty list of bools."""
    if isinstance(key, Vector):
        return key.schema() is not None and key.schema().kind is bool and not key.schema().nullable
    if isinstance(key, list):
        return len(key) > 0 and {type(e) for e in key} == {bool}
    return False


def getitem_spec(self, key):
    """C07: Python sequence semantics, keeping dtype, name and row flag."""
    vals = self._underlying
    if isinstance(key, int):
        return vals[key]
    if isinstance(key, slice):
        return vec(vals[key], self._dtype, self._name, self._display_as_row)
    return vec([x for x, m in zip(vals, key) if m], self._dtype, self._name, self._display_as_row)


# ------------------------------------------------------------------ C05 / C06 elementwise
def is_plain_scalar(x):
    """Operand treated as a scalar by the statement: not a vector, not a container."""
    return not isinstance(x, (Vector, list, dict, tuple))


def operand_values(other):
    """Element sequence of a vector / plain-sequence operand."""
    if isinstance(other, Vector):
        return other._underlying
    return other


def compare_spec(self, other, op):
    """C06/C07: non-nullable bool vector; False wherever an operand element is None, else
    bool(op(x, y)) for the i-th operands in written order."""
    if is_plain_scalar(other):
        return vec([False if x is None else bool(op(x, other)) for x in self._underlying],
                   DataType(bool, False), None, False)
    return vec([False if (x is None or y is None) else bool(op(x, y))
                for x, y in zip(self._underlying, operand_values(other))],
               DataType(bool, False), None, False)


def arith_spec(self, other, op):
    """C05/C06: new unnamed vector, element i = op(self_i, other_i) in written order, None where
    an operand element is None; dtype inferred from the result values (C04 rule)."""
    if is_plain_scalar(other):
        values = [None if x is None else op(x, other) for x in self._underlying]
    else:
        values = [None if (x is None or y is None) else op(x, y)
                  for x, y in zip(self._underlying, operand_values(other))]
    return vec(values, infer_spec(values), None, self._display_as_row)


def length_mismatch(self, other):
    if is_plain_scalar(other):
        return False
    return len(operand_values(other)) != len(self._underlying)


def r_add(a, b):
    return b + a


def r_sub(a, b):
    return b - a


def r_truediv(a, b):
    return b / a


def r_floordiv(a, b):
    return b // a


def r_mod(a, b):
    return b % a


def r_pow(a, b):
    return b ** a


def unary_spec(self, op):
    """C05/C06: element i = op(self_i), None staying None; name and row flag kept; dtype by the
    inference rule on the result values (C03/C04)."""
    values = [None if x is None else op(x) for x in self._underlying]
    return vec(values, infer_spec(values), self._name, self._display_as_row)


# ------------------------------------------------------------------ C06 / C12 reductions
def non_none(values):
    return [v for v in values if v is not None]


def has_value(values):
    return len(non_none(values)) > 0


def sum_spec(values):
    return sum(v for v in values if v is not None)


def count_spec(values):
    return sum(1 for v in values if v is not None)


def mean_spec(values):
    clean = [v for v in values if v is not None]
    if len(clean) == 0:
        return None
    return sum(clean) / len(clean)


def min_spec(values):
    clean = [v for v in values if v is not None]
    if len(clean) == 0:
        return None
    return min(clean)


def max_spec(values):
    clean = [v for v in values if v is not None]
    if len(clean) == 0:
        return None
    return max(clean)


def stdev_spec(values, population=False):
    """Sample standard deviation of the non-None values (None for fewer than two)."""
    clean = [v for v in values if v is not None]
    n = len(clean)
    if n < 2:
        return None
    m = sum(clean) / n
    return (sum((x - m) * (x - m) for x in clean) / (n - 1 + population)) ** 0.5


# ------------------------------------------------------------------ C11 join cardinality
VALID_EXPECT = ('one_to_one', 'many_to_one', 'one_to_many', 'many_to_many')


def need_right_unique(expect):
    """'one_to_one' and 'many_to_one' require unique keys on the right."""
    return expect == 'one_to_one' or expect == 'many_to_one'


def need_left_unique(expect):
    """'one_to_one' and 'one_to_many' require unique keys on the left."""
    return expect == 'one_to_one' or expect == 'one_to_many'


# ------------------------------------------------------------------ C14 sort keys
def place_flag(is_none, rev, na_last):
    """Leading component of a sort key such that, after sort(reverse=rev), None comes last
    when na_last and first otherwise - whatever the direction."""
    return (is_none == na_last) != rev


def before_after_sort(kx, ky, rev):
    """x is placed before y by a (stable) sort with reverse=rev when the keys differ."""
    if rev:
        return kx > ky
    return kx < ky


# ------------------------------------------------------------------ C18 binary names
def binary_name(left, right):
    """table-with-table keeps a left name only when the right name is absent or equal."""
    if right is None or right == left:
        return left
    return None


# ------------------------------------------------------------------ C19 CSV cells
def csv_cell(text):
    """None if empty or blank, else int if int() accepts the stripped text, else float if
    float() does, else the stripped string."""
    s = text.strip()
    if s == '':
        return None
    try:
        return int(s)
    except ValueError:
        pass
    try:
        return float(s)
    except ValueError:
        pass
    return s


# ------------------------------------------------------------------ C20 preview
def preview_rows(n, half):
    """Body rows shown for n data rows with `half` head rows and `half` tail rows: every row
    when n <= 2*half, else first half + one ellipsis + last half."""
    if n > 2 * half:
        return 2 * half + 1
    return n


# ------------------------------------------------------------------ C05 broadcast methods
def broadcast_method_spec(values, method, args, kwargs):
    """element i of the result is the method applied to element i, None staying None."""
    return vec_inferred([None if e is None else getattr(e, method)(*args, **kwargs) for e in values],
                        None, False)


def broadcast_property_spec(values, name):
    return vec_inferred([None if e is None else getattr(e, name) for e in values], None, False)


# ------------------------------------------------------------------ C03 truthful dtype
def truthful_elem(v, d):
    """Element v is honestly described by dtype d."""
    if d is None:
        return False
    if v is None:
        return d.nullable
    return belongs(type(v), d.kind)


def truthful(v):
    """C03 invariant of a one-dimensional vector (symbolically: for an arbitrary element)."""
    return all(truthful_elem(e, v._dtype) for e in v._underlying)


# ------------------------------------------------------------------ C16 fingerprint
FP_P = (1 << 61) - 1
FP_B = 1315423911


def hash_elem(x):
    """Per-element hash used by the fingerprint: a deterministic function of the element
    (natively serif's own _hash_element; symbolically an uninterpreted function)."""
    return Vector._hash_element(x)


def fp_step(total, x):
    return (total * FP_B + hash_elem(x)) % FP_P


def fp_prefix(values, k):
    return fold(fp_step, 0, values, k)


def fp_spec(values):
    """Rolling polynomial hash of the element hashes, in order."""
    return fp_prefix(values, len(values))


def horner_step(total, h):
    return (total * FP_B + h) % FP_P


# ------------------------------------------------------------------ constructor protocol
def type_call_vector(initial, dtype, name, as_row):
    """What `Vector(initial, dtype=dtype, name=name, as_row=as_row)` does: type.__call__ runs
    __new__ and then __init__ on the returned instance."""
    inst = Vector.__new__(Vector, initial, dtype, name, as_row)
    type(inst).__init__(inst, initial, dtype, name, as_row)
    return inst


def same_view(a, b):
    """Equal abstract views (values, dtype, name, row flag)."""
    return (tuple(a._underlying) == tuple(b._underlying) and a._dtype == b._dtype
            and a._name == b._name and a._display_as_row == b._display_as_row)


# ------------------------------------------------------------------ names
def sanitize_name(name):
    """The accessor form of a stored name (natively serif's own function, whose output language
    is decided by pylang; symbolically an uninterpreted function into None | str)."""
    from serif.naming import _sanitize_user_name
    return _sanitize_user_name(name)


# ------------------------------------------------------------------ C02 / C03 concatenation (<<)
def concat_step(st, v):
    d = promote_spec(DataType(st[0], st[1]), v)
    return (d.kind, d.nullable)


def concat_dtype_state(dtype, values, k):
    return fold(concat_step, (dtype.kind, dtype.nullable), values, k)


def concat_dtype_spec(dtype, values):
    """dtype of existing values followed by `values`: the left dtype promoted with every appended
    value (C03: never narrower than either side); an untyped empty left side infers."""
    if dtype is None:
        if len(values) == 0:
            return None
        return infer_spec(values)
    st = concat_dtype_state(dtype, values, len(values))
    return DataType(st[0], st[1])


def appended_values(other):
    """What `v << other` appends: the elements of a vector / plain sequence, or the one scalar."""
    if isinstance(other, Vector):
        return other._underlying
    if isinstance(other, list):
        return other
    return [other]


def lshift_spec(self, other):
    """C02: << appends (rows); existing elements untouched, every appended value lands."""
    app = appended_values(other)
    return vec(list(self._underlying) + list(app), concat_dtype_spec(self._dtype, app), None, False)


# ------------------------------------------------------------------ C08 promotion on assignment
def can_promote(a, b):
    """Documented widenings only: bool -> int -> float -> complex, date -> datetime."""
    if a in NUM and b in NUM:
        return num_rank(a) < num_rank(b)
    return a is date and b is datetime


def convert_value(kind, x):
    """Existing elements are converted when a column is promoted (None stays None)."""
    if x is None:
        return None
    if kind is datetime:
        return datetime.combine(x, datetime.min.time())
    return kind(x)


def ladder_step(st, v):
    """One new value against the running target kind: (kind, failed)."""
    kind, failed = st
    if failed or v is None:
        return (kind, failed)
    if belongs(type(v), kind):
        return (kind, failed)
    if can_promote(kind, type(v)):
        return (type(v), False)
    return (kind, True)


def ladder_state(kind, values, k):
    return fold(ladder_step, (kind, False), values, k)


def written_values(key, value, n):
    """The values one assignment writes (int key: the value; slice key: the sequence, or the
    scalar repeated over the slice)."""
    if isinstance(key, int):
        return [value]
    if isinstance(value, list):
        return value
    if isinstance(key, list):
        return [value] * len(key)
    return [value] * len(range(n)[key])


def setitem_kind_state(dtype, values):
    return ladder_state(dtype.kind, values, len(values))


# ------------------------------------------------------------------ C02 tables
from serif.table import Table  # noqa: E402


def col_view_equal(c, v):
    """Column c shows exactly what vector v shows (values, dtype, name)."""
    return tuple(c._underlying) == tuple(v._underlying) and c._dtype == v._dtype and c._name == v._name


def rect(t):
    """Every column has the table's length (zero columns: zero rows)."""
    if len(t._underlying) == 0:
        return t._length == 0
    return all(len(c._underlying) == t._length for c in t._underlying)


def same_cells(t, columns):
    """Table t consists of fresh copies of `columns`, in order."""
    if len(t._underlying) != len(columns):
        return False
    return all(col_view_equal(c, v) and c is not v for c, v in zip(t._underlying, columns))


# ------------------------------------------------------------------ container inspection (loop invariants only)
def _symbolic_only():
    raise NotImplementedError('container-inspection functions are evaluated symbolically by pyvc only')


def mk_key(*components):
    """dict key of a tuple of key components"""
    _symbolic_only()


def blen(d, k):
    """length of the bucket stored under key k (0: absent)"""
    _symbolic_only()


def bat(d, k, p):
    """p-th row index of the bucket under key k"""
    _symbolic_only()


def dcount(d):
    """number of distinct keys"""
    _symbolic_only()


def dord(d, g):
    """the g-th key in insertion order"""
    _symbolic_only()


def smem(s, x):
    _symbolic_only()


def llen(lst):
    _symbolic_only()


def lat(lst, i):
    _symbolic_only()


def sel(a, i):
    _symbolic_only()


def upd(a, i, v):
    _symbolic_only()


def forall(sorts, fn):
    """forall('ki', lambda k, i: ...): universally quantified over keys (k) / ints (i)"""
    _symbolic_only()


def implies(a, b):
    return (not a) or b


def ghost_zero_int():
    _symbolic_only()


def ghost_zero_key():
    _symbolic_only()


def csv_nrows(records):
    """number of records the csv reader yielded"""
    _symbolic_only()


def csv_rowlen(records, i):
    """number of cells of record i"""
    _symbolic_only()


def csv_text(records, i, j):
    """text of cell j of record i"""
    _symbolic_only()


def sort_source(sorted_seq, p):
    """position, in the sequence that was sorted, of the element now at position p"""
    _symbolic_only()


def kat(lst, i):
    """i-th entry of a list of key tuples"""
    _symbolic_only()


def mhas(m, k):
    """key k is in the map"""
    _symbolic_only()


def mget(m, k):
    """value stored under key k"""
    _symbolic_only()


def key_part(key, j):
    """j-th component of a dict key tuple"""
    _symbolic_only()


def same(a, b):
    """a and b are the very same value (object identity / structural equality of the modelled value);
    unlike ==, a NaN is the same as itself and 1 is not the same as True"""
    _symbolic_only()


def at(seq, i):
    """seq[i] as a total function of i (loop invariants quantify over all i; range guards are explicit)"""
    _symbolic_only()

"""Contracts for serif/display.py (C20)."""
from pyvc.contract import contract
from contracts import specs as S


@contract('serif.display._format_column', props=['C20'])
class format_column:
    """C20: never raises (for every float incl. nan/inf) and shows every row of short data,
    exactly first + ellipsis + last rows of long data."""
    params = {'col': 'vector', 'max_preview': 'nat'}
    total = True
    note = 'element formatting (f-strings, str(), isoformat()) is uninterpreted and assumed not to raise for builtin scalars'

    def requires(col):
        return S.truthful(col)

    def ensures(col, max_preview, result):
        return len(result) == S.preview_rows(len(col._underlying), max_preview)


def _dtype_text(v):
    if v._dtype is None:
        return 'object'
    if v._dtype.nullable:
        return v._dtype.kind.__name__ + '?'
    return v._dtype.kind.__name__


@contract('serif.display._footer', props=['C20'])
class footer_vector:
    """C20: a vector's footer states the true element count and the true dtype with nullability
    (an empty vector is a 0 element vector)."""
    params = {'pv': 'vector', 'dtype_list': 'none', 'truncated': 'bool', 'shown': 'int'}
    total = True

    def returns(pv):
        return '# ' + str(len(pv._underlying)) + ' element vector <' + _dtype_text(pv) + '>'

"""Loop invariants for serif/typing.py (sidecar; keyed by function and loop ordinal)."""
from pyvc.contract import loop_invariant
from serif.typing import DataType
from contracts.specs import infer_state


@loop_invariant('serif.typing.infer_dtype', 0, havoc={'dtype': 'opt_dtype', 'saw_none': 'bool'})
def infer_dtype_inv(k, values, dtype, saw_none):
    """After k elements the two locals encode the spec fold state of values[:k]."""
    has, kind, nullable = infer_state(values, k)
    if kind is type(None):
        return False
    if dtype is None:
        return (not has) and saw_none == nullable
    return has and dtype.kind is kind and (not dtype.nullable) and saw_none == nullable

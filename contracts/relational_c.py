"""Sidecar for the hash-index loops of serif/table.py (C12, C13, C09-C11): container
representations, loop invariants with ghost witnesses, exit assertions (DESIGN appendix A.3-A.5).

Scope of these proofs: a concrete (small) number of key / value columns, an ARBITRARY number of
rows and arbitrary key values; key equality only - hash values never occur, so the facts hold for
every PYTHONHASHSEED under the dict assumption (insertion order, lookup by equality)."""
from pyvc.contract import contract, loop_invariant, represent, exit_assert
from serif.errors import SerifValueError
from serif.table import Table
from serif.vector import Vector
from contracts import specs as S
from contracts.specs import mk_key, blen, bat, dcount, dord, sel, upd, forall, implies

AGG = 'serif.table.Table.aggregate'
represent(AGG, partition_index='symdict')


def _agg_key(over_data, e):
    return mk_key(*[S.at(col, e) for col in over_data])


def agg_ghost_init():
    # pos[e]: where row e sits in its bucket; gidx[k]: insertion rank of key k
    return {'pos': upd(upd_zero(), 0, 0), 'gidx': updk_zero()}


def upd_zero():
    return S.ghost_zero_int()


def updk_zero():
    return S.ghost_zero_key()


def agg_ghost_step(k, over_data, partition_index, pos, gidx):
    k0 = _agg_key(over_data, k)
    n = blen(partition_index, k0)
    newg = gidx
    if n == 1:
        newg = upd(gidx, k0, dcount(partition_index) - 1)
    return {'pos': upd(pos, k, n - 1), 'gidx': newg}


@loop_invariant(AGG, 'for row_idx in range(nrows)', havoc={'partition_index': 'symdict'},
                ghost={'pos': 'intarr', 'gidx': 'keyintarr'}, ghost_init=agg_ghost_init, ghost_step=agg_ghost_step)
def agg_partition_inv(k, over_data, partition_index, pos, gidx):
    """After k rows: bucket(key) is exactly the ascending list of rows < k with that key, and the
    keys are ranked by first appearance."""
    d = partition_index
    return (
        dcount(d) >= 0
        and forall('k', lambda q: blen(d, q) >= 0)
        # every bucket entry is a processed row with that key
        and forall('ki', lambda q, p: implies(0 <= p < blen(d, q),
                                               0 <= bat(d, q, p) < k and _agg_key(over_data, bat(d, q, p)) == q))
        # buckets are strictly ascending (row order, no duplicates)
        and forall('kii', lambda q, p, r: implies(0 <= p < r < blen(d, q), bat(d, q, p) < bat(d, q, r)))
        # every processed row sits in the bucket of its key (ghost witness pos)
        and forall('i', lambda e: implies(0 <= e < k,
                                           0 <= sel(pos, e) < blen(d, _agg_key(over_data, e))
                                           and bat(d, _agg_key(over_data, e), sel(pos, e)) == e))
        # insertion order: exactly the non-empty keys, ranked by their first row
        and forall('i', lambda g: implies(0 <= g < dcount(d), blen(d, dord(d, g)) >= 1 and sel(gidx, dord(d, g)) == g))
        and forall('k', lambda q: implies(blen(d, q) >= 1, 0 <= sel(gidx, q) < dcount(d) and dord(d, sel(gidx, q)) == q))
        and forall('ii', lambda g, h: implies(0 <= g < h < dcount(d), bat(d, dord(d, g), 0) < bat(d, dord(d, h), 0)))
    )


@contract('serif.table.Table.aggregate.<locals>.uniquify', props=[])
class agg_uniquify:
    """Output-name uniquification (C18: bounded): an opaque string at the value level."""
    nested = (AGG, 'uniquify', 0)
    params = {'name': 'any'}
    trusted = True
    result_sort = 'str'


@contract(AGG, props=['C12'], variant='partition-1key-sum')
class aggregate_partition:
    """C12 (partition loop, one key vector, one summed column; any number of rows): the index
    built by the real loop maps every distinct key to the ascending list of its rows, keys
    ranked by first appearance (invariant `agg_partition_inv`: initiation + consecution)."""
    params = {'self': 'table1', 'over': 'dvector', 'sum_over': 'dvector', 'mean_over': 'none', 'min_over': 'none',
              'max_over': 'none', 'stdev_over': 'none', 'count_over': 'none', 'apply': 'none'}
    may_raise = [SerifValueError]
    stop_after = ('agg_partition_inv',)
    quant_prune = False

    def requires(self, over, sum_over):
        return S.rect(self)


# ================================================================== inner_join (C09, C11)
IJ = 'serif.table.Table.inner_join'
represent(IJ, right_index='symdict', duplicates='symdict', left_keys_seen='symset:key', result_data='list_of_symlist')


@contract('serif.table.Table._validate_join_keys', props=['C09', 'C10', 'C11'])
class validate_join_keys:
    """Key specs given as two Vectors: on a normal return the result is exactly the one pair
    (left key, right key) - the vectors themselves, never table columns of the same name - and a
    key whose length differs from its table's row count is rejected (so the join loops may index
    the key columns by row number).  Name specs (strings) and lists of specs are bounded (C09)."""
    params = {'self': 'table1', 'other': 'table1', 'left_on': 'alt:dvector|listof:2:dvector', 'right_on': 'alt:dvector|listof:2:dvector'}
    from serif.errors import SerifTypeError as _T, SerifKeyError as _K
    may_raise = [SerifValueError, _T, _K]

    def requires(self, other, left_on, right_on):
        return S.rect(self) and S.rect(other) and all(S.truthful(v) for v in _as_list(left_on)) and all(S.truthful(v) for v in _as_list(right_on))

    def returns(left_on, right_on):
        return list(zip(_as_list(left_on), _as_list(right_on)))

    def ensures(self, other, left_on, right_on, result):
        return len(_as_list(left_on)) == len(_as_list(right_on)) and \
            all(len(v._underlying) == self._length for v in _as_list(left_on)) and \
            all(len(v._underlying) == other._length for v in _as_list(right_on))


def _as_list(spec):
    return spec if isinstance(spec, list) else [spec]


@contract('serif.table.Table._validate_key_tuple_hashable', props=['C09', 'C10'])
class validate_key_tuple_hashable:
    """A pure check: returns None or raises SerifTypeError (never anything else), for key tuples of
    one or two components."""
    params = {'key_tuple': 'alt:tupleof:1:any|tupleof:2:any', 'key_cols': 'alt:listof:1:dvector|listof:2:dvector', 'row_idx': 'int'}
    from serif.errors import SerifTypeError as _T
    may_raise = [_T]

    def ensures(result):
        return result is None


def _row_key(cols, e):
    return mk_key(*[S.at(c._underlying, e) for c in cols])


def ij_ghost_init():
    return {'rpos': S.ghost_zero_int(), 'dupkey': mk_key(0)}


def ij_index_ghost_step(k, right_keys, right_index, rpos):
    k0 = _row_key(right_keys, k)
    return {'rpos': upd(rpos, k, blen(right_index, k0) - 1)}


@loop_invariant(IJ, 'for row_idx in range(right_nrows)', havoc={'right_index': 'symdict', 'duplicates': 'symdict'},
                ghost={'rpos': 'intarr'}, ghost_init=ij_ghost_init, ghost_step=ij_index_ghost_step)
def ij_index_inv(k, right_keys, right_index, check_right_unique, rpos, duplicates=None):
    """After k right rows: bucket(key) is exactly the ascending list of right rows < k with that
    key; `duplicates` is non-empty iff uniqueness is checked and some key occurs twice."""
    d = right_index
    return (
        forall('k', lambda q: blen(d, q) >= 0)
        # a non-empty bucket needs a row (keeps the empty-table case decidable by instantiation)
        and forall('k', lambda q: implies(blen(d, q) > 0, k > 0))
        and forall('ki', lambda q, p: implies(0 <= p < blen(d, q), 0 <= bat(d, q, p) < k and _row_key(right_keys, bat(d, q, p)) == q))
        and forall('kii', lambda q, p, r: implies(0 <= p < r < blen(d, q), bat(d, q, p) < bat(d, q, r)))
        and forall('i', lambda e: implies(0 <= e < k, 0 <= sel(rpos, e) < blen(d, _row_key(right_keys, e))
                                           and bat(d, _row_key(right_keys, e), sel(rpos, e)) == e))
        # cardinality bookkeeping (C11): recorded duplicates are real, and every real one is recorded
        and (duplicates is None or _dup_exact(d, duplicates))
    )


def _dup_exact(d, duplicates):
    return (dcount(duplicates) >= 0
            and forall('k', lambda q: blen(duplicates, q) >= 0)
            and forall('k', lambda q: implies(blen(duplicates, q) >= 1, blen(d, q) >= 2))
            and forall('k', lambda q: implies(blen(d, q) >= 2, blen(duplicates, q) >= 1 and dcount(duplicates) >= 1))
            and implies(dcount(duplicates) >= 1, blen(duplicates, dord(duplicates, 0)) >= 1))


@contract(IJ, props=['C09', 'C11'], variant='index-build')
class inner_join_index:
    """C09/C11 (index build, one key column per side, any number of rows): the hash index maps
    every key to the ascending list of the right rows carrying it, and the duplicate record is
    exact (invariant `ij_index_inv`: initiation + consecution on the real loop)."""
    params = {'self': 'table1', 'other': 'table1', 'left_on': 'dvector', 'right_on': 'dvector', 'expect': 'str'}
    from serif.errors import SerifTypeError as _T, SerifKeyError as _K
    may_raise = [SerifValueError, _T, _K]
    stop_after = ('ij_index_inv',)
    quant_prune = False

    def requires(self, other, left_on, right_on):
        # (that the key vectors are as long as their tables is NOT assumed: a longer or shorter key
        # is rejected by _validate_join_keys, whose contract is discharged)
        return S.rect(self) and S.rect(other) and all(S.truthful(v) for v in _as_list(right_on)) and all(S.truthful(v) for v in _as_list(left_on))


# ------------------------------------------------------------------ inner_join probe / emit loops
from contracts.specs import llen, lat, smem  # noqa: E402


def _emitted_rows_ok(upto, left_keys, left_cols, right_cols, right_index, result_data, start):
    """Output rows of every left row l < upto: the contiguous block of positions start[l] <= q <
    start[l] + len(bucket of l's key); position q holds l's cells and the cells of right row
    bucket[q - start[l]].  (Quantified over the output position q so that no arithmetic occurs in an
    index the solver has to match on.)"""
    d = right_index
    nl = len(left_cols)
    return (
        sel(start, 0) == 0
        and forall('i', lambda l: implies(0 <= l < upto, sel(start, l + 1) == sel(start, l) + blen(d, _row_key(left_keys, l))))
        # every earlier block ends at or before the frontier (stated, not derived: the solver does no
        # induction over l)
        and forall('i', lambda l: implies(0 <= l < upto, 0 <= sel(start, l) and sel(start, l) + blen(d, _row_key(left_keys, l)) <= sel(start, upto)))
        and forall('ii', lambda l, q: implies(
            0 <= l < upto and sel(start, l) <= q < sel(start, l) + blen(d, _row_key(left_keys, l)),
            all(S.same(lat(result_data[c], q), S.at(left_cols[c]._underlying, l)) for c in range(len(left_cols)))
            and all(S.same(lat(result_data[nl + c], q), S.at(right_cols[c]._underlying, bat(d, _row_key(left_keys, l), q - sel(start, l))))
                    for c in range(len(right_cols)))))
    )


def ij_probe_ghost_init():
    return {'start': S.ghost_zero_int(), 'seenby': S.ghost_zero_key()}


def ij_probe_ghost_step(k, result_data, start, left_keys, seenby, check_left_unique):
    sb = seenby
    if check_left_unique:
        sb = upd(seenby, _row_key(left_keys, k), k)
    return {'start': upd(start, k + 1, llen(result_data[0])), 'seenby': sb}


@loop_invariant(IJ, 'for left_idx in range(left_nrows)', havoc={'result_data': 'list_of_symlist', 'left_keys_seen': 'symset'},
                ghost={'start': 'intarr', 'seenby': 'keyintarr'}, ghost_init=ij_probe_ghost_init, ghost_step=ij_probe_ghost_step)
def ij_probe_inv(k, left_keys, left_cols, right_cols, right_index, result_data, start, check_left_unique, seenby,
                 right_keys, rpos, right_nrows, left_keys_seen=None):
    """After k left rows: the buffers hold exactly the pairs (l, r), l < k, key(l) == key(r), in
    left-major / right-ascending order (contiguous blocks), every buffer has the same length;
    the seen-set is exactly the set of keys of the processed left rows."""
    return (
        all(llen(col) == sel(start, k) for col in result_data)
        and sel(start, k) >= 0
        and _emitted_rows_ok(k, left_keys, left_cols, right_cols, right_index, result_data, start)
        and (left_keys_seen is None or (
            forall('i', lambda l: implies(0 <= l < k, smem(left_keys_seen, _row_key(left_keys, l))))
            and forall('k', lambda q: implies(smem(left_keys_seen, q), 0 <= sel(seenby, q) < k and _row_key(left_keys, sel(seenby, q)) == q))))
    )


def ij_index_facts(right_keys, right_index, rpos, n):
    """The (loop-1) facts about the finished index, carried through loop 2 (the index is not modified)."""
    d = right_index
    return (
        forall('k', lambda q: blen(d, q) >= 0)
        and forall('ki', lambda q, p: implies(0 <= p < blen(d, q), 0 <= bat(d, q, p) < n and _row_key(right_keys, bat(d, q, p)) == q))
        and forall('kii', lambda q, p, r: implies(0 <= p < r < blen(d, q), bat(d, q, p) < bat(d, q, r)))
        and forall('i', lambda e: implies(0 <= e < n, 0 <= sel(rpos, e) < blen(d, _row_key(right_keys, e))
                                           and bat(d, _row_key(right_keys, e), sel(rpos, e)) == e))
    )


@loop_invariant(IJ, 'for right_idx in matches', havoc={'result_data': 'list_of_symlist'})
def ij_emit_inv(k, left_idx, matches, left_keys, left_cols, right_cols, right_index, result_data, start,
                right_keys, rpos, right_nrows):
    """After k entries of the current bucket: earlier left rows as before, the first k pairs of
    the current left row appended."""
    nl = len(left_cols)
    return (
        all(llen(col) == sel(start, left_idx) + k for col in result_data)
        and _emitted_rows_ok(left_idx, left_keys, left_cols, right_cols, right_index, result_data, start)
        and forall('i', lambda q: implies(
            sel(start, left_idx) <= q < sel(start, left_idx) + k,
            all(S.same(lat(result_data[c], q), S.at(left_cols[c]._underlying, left_idx)) for c in range(len(left_cols)))
            and all(S.same(lat(result_data[nl + c], q), S.at(right_cols[c]._underlying, S.at(matches, q - sel(start, left_idx))))
                    for c in range(len(right_cols)))))
    )


class _ProbeBase:
    """C09 (probe / emit loops, one key column and one payload column per side, any row counts, any
    keys): the column buffers hold exactly one row per key-equal pair, left-major then
    right-ascending, with the paired rows' cells (invariants `ij_probe_inv`, `ij_emit_inv`);
    C11: the left seen-set is exact, so the left-uniqueness raise happens iff a left key repeats.
    The four variants enumerate the valid `expect` values."""
    params = {'self': 'table1', 'other': 'table1', 'left_on': 'dvector', 'right_on': 'dvector', 'expect': 'str'}
    from serif.errors import SerifTypeError as _T, SerifKeyError as _K
    may_raise = [SerifValueError, _T, _K]
    stop_after = ('ij_probe_inv',)
    assume_loops = ('ij_index_inv',)
    quant_prune = False


def _probe_pre(self, other, left_on, right_on):
    return S.rect(self) and S.rect(other) and all(S.truthful(v) for v in _as_list(right_on)) and \
        all(S.truthful(v) for v in _as_list(left_on)) and \
        all(S.truthful(c) for c in self._underlying) and all(S.truthful(c) for c in other._underlying)


@contract(IJ, props=['C09', 'C11'], variant='probe-many_to_many')
class inner_join_probe_mm(_ProbeBase):
    __doc__ = _ProbeBase.__doc__

    def requires(self, other, left_on, right_on, expect):
        return _probe_pre(self, other, left_on, right_on) and expect == 'many_to_many'


@contract(IJ, props=['C09', 'C11'], variant='probe-one_to_one')
class inner_join_probe_11(_ProbeBase):
    __doc__ = _ProbeBase.__doc__

    def requires(self, other, left_on, right_on, expect):
        return _probe_pre(self, other, left_on, right_on) and expect == 'one_to_one'


@contract(IJ, props=['C09', 'C11'], variant='probe-many_to_one')
class inner_join_probe_m1(_ProbeBase):
    __doc__ = _ProbeBase.__doc__
    tier = 'thorough'

    def requires(self, other, left_on, right_on, expect):
        return _probe_pre(self, other, left_on, right_on) and expect == 'many_to_one'


@contract(IJ, props=['C09', 'C11'], variant='probe-one_to_many')
class inner_join_probe_1m(_ProbeBase):
    __doc__ = _ProbeBase.__doc__
    tier = 'thorough'

    def requires(self, other, left_on, right_on, expect):
        return _probe_pre(self, other, left_on, right_on) and expect == 'one_to_many'


# ------------------------------------------------------------------ inner_join: result assembly
@exit_assert(IJ)
def ij_exit(result, result_data=None, start=None, left_nrows=None, left_cols=None, right_cols=None):
    """At every return after the loops: the returned table has no columns when no pair matched,
    otherwise one column per input column, in order (left columns then right columns), column c
    holding exactly the buffer c (same length, same cells) under the input column's name."""
    if start is None or result_data is None:
        return True
    nout = sel(start, left_nrows)
    cols = list(left_cols) + list(right_cols)
    if nout == 0:
        return len(result._underlying) == 0
    return (
        len(result._underlying) == len(cols)
        and all(len(result._underlying[c]._underlying) == nout for c in range(len(cols)))
        and all(result._underlying[c]._name == cols[c]._name for c in range(len(cols)))
        and forall('i', lambda q: implies(
            0 <= q < nout,
            all(S.same(S.at(result._underlying[c]._underlying, q), lat(result_data[c], q)) for c in range(len(cols)))))
    )


@contract(IJ, props=['C09', 'C18'], variant='wrap')
class inner_join_wrap(_ProbeBase):
    """C09 (result assembly): with both loop invariants at their exits, the returned table is the
    buffers wrapped column by column - so its rows are exactly the key-equal pairs, left-major and
    right-ascending, under the input columns' names (exit assertion `ij_exit`)."""
    stop_after = ()
    assume_loops = ('ij_index_inv', 'ij_probe_inv')

    def requires(self, other, left_on, right_on, expect):
        return _probe_pre(self, other, left_on, right_on) and expect == 'many_to_many'


# =================================================================== Table.join (left join), C10 / C11
LJ = 'serif.table.Table.join'
represent(LJ, right_index='symdict', duplicates='symdict', left_keys_seen='symset:key', result_data='list_of_symlist')


@loop_invariant(LJ, 'for row_idx in range(right_nrows)', havoc={'right_index': 'symdict', 'duplicates': 'symdict'},
                ghost={'rpos': 'intarr'}, ghost_init=ij_ghost_init, ghost_step=ij_index_ghost_step)
def lj_index_inv(k, right_keys, right_index, check_right_unique, rpos, duplicates=None):
    """Same index invariant as inner_join (the loop differs only in recording a duplicate key once)."""
    return ij_index_inv(k, right_keys, right_index, check_right_unique, rpos, duplicates)


@contract(LJ, props=['C10', 'C11'], variant='index-build')
class join_index(inner_join_index):
    """C10/C11 (left join, index build): as for inner_join - every key maps to the ascending list of
    the right rows carrying it; the duplicate record is exact."""
    stop_after = ('lj_index_inv',)


def _bsz(d, key):
    """rows a left row contributes to a left join: one per match, or one unmatched row"""
    return blen(d, key) if blen(d, key) > 0 else 1


def _lj_rows_ok(upto, left_keys, left_cols, right_cols, right_index, result_data, start):
    """Output rows of every left row l < upto in a LEFT join: the contiguous block start[l] <= q <
    start[l] + max(1, len(bucket)); position q holds l's cells and either the cells of right row
    bucket[q - start[l]] or, for an unmatched left row, None in every right column."""
    d = right_index
    nl = len(left_cols)
    return (
        sel(start, 0) == 0
        and forall('i', lambda l: implies(0 <= l < upto, sel(start, l + 1) == sel(start, l) + _bsz(d, _row_key(left_keys, l))))
        and forall('i', lambda l: implies(0 <= l < upto, 0 <= sel(start, l) and sel(start, l) + _bsz(d, _row_key(left_keys, l)) <= sel(start, upto)))
        and forall('ii', lambda l, q: implies(
            0 <= l < upto and sel(start, l) <= q < sel(start, l) + _bsz(d, _row_key(left_keys, l)),
            all(S.same(lat(result_data[c], q), S.at(left_cols[c]._underlying, l)) for c in range(len(left_cols)))
            and all(implies(blen(d, _row_key(left_keys, l)) > 0,
                            S.same(lat(result_data[nl + c], q), S.at(right_cols[c]._underlying, bat(d, _row_key(left_keys, l), q - sel(start, l)))))
                    and implies(blen(d, _row_key(left_keys, l)) <= 0, lat(result_data[nl + c], q) is None)
                    for c in range(len(right_cols)))))
    )


@loop_invariant(LJ, 'for left_idx in range(left_nrows)', havoc={'result_data': 'list_of_symlist', 'left_keys_seen': 'symset'},
                ghost={'start': 'intarr', 'seenby': 'keyintarr'}, ghost_init=ij_probe_ghost_init, ghost_step=ij_probe_ghost_step)
def lj_probe_inv(k, left_keys, left_cols, right_cols, right_index, result_data, start, check_left_unique, seenby,
                 left_keys_seen=None):
    """After k left rows of a left join: every processed left row has its block (matches in
    ascending right order, or one None-padded row); the seen-set is exact."""
    return (
        all(llen(col) == sel(start, k) for col in result_data)
        and sel(start, k) >= 0
        and _lj_rows_ok(k, left_keys, left_cols, right_cols, right_index, result_data, start)
        and (left_keys_seen is None or (
            forall('i', lambda l: implies(0 <= l < k, smem(left_keys_seen, _row_key(left_keys, l))))
            and forall('k', lambda q: implies(smem(left_keys_seen, q), 0 <= sel(seenby, q) < k and _row_key(left_keys, sel(seenby, q)) == q))))
    )


@loop_invariant(LJ, 'for right_idx in matches', havoc={'result_data': 'list_of_symlist'})
def lj_emit_inv(k, left_idx, matches, left_keys, left_cols, right_cols, right_index, result_data, start):
    nl = len(left_cols)
    return (
        all(llen(col) == sel(start, left_idx) + k for col in result_data)
        and _lj_rows_ok(left_idx, left_keys, left_cols, right_cols, right_index, result_data, start)
        and forall('i', lambda q: implies(
            sel(start, left_idx) <= q < sel(start, left_idx) + k,
            all(S.same(lat(result_data[c], q), S.at(left_cols[c]._underlying, left_idx)) for c in range(len(left_cols)))
            and all(S.same(lat(result_data[nl + c], q), S.at(right_cols[c]._underlying, S.at(matches, q - sel(start, left_idx))))
                    for c in range(len(right_cols)))))
    )


class _LJProbeBase(_ProbeBase):
    """C10 (left join, probe / emit loops, one key column and one payload column per side, any row
    counts, any keys): every left row appears - once per key-equal right row in ascending right
    order, or once padded with None when nothing matches - in left order (invariants `lj_probe_inv`,
    `lj_emit_inv`); C11: the left seen-set is exact."""
    stop_after = ('lj_probe_inv',)
    assume_loops = ('lj_index_inv',)


@contract(LJ, props=['C10', 'C11'], variant='probe-many_to_many')
class join_probe_mm(_LJProbeBase):
    __doc__ = _LJProbeBase.__doc__

    def requires(self, other, left_on, right_on, expect):
        return _probe_pre(self, other, left_on, right_on) and expect == 'many_to_many'


@contract(LJ, props=['C10', 'C11'], variant='probe-one_to_one')
class join_probe_11(_LJProbeBase):
    __doc__ = _LJProbeBase.__doc__

    def requires(self, other, left_on, right_on, expect):
        return _probe_pre(self, other, left_on, right_on) and expect == 'one_to_one'


@contract(LJ, props=['C10', 'C11'], variant='probe-many_to_one')
class join_probe_m1(_LJProbeBase):
    __doc__ = _LJProbeBase.__doc__
    tier = 'thorough'

    def requires(self, other, left_on, right_on, expect):
        return _probe_pre(self, other, left_on, right_on) and expect == 'many_to_one'


@contract(LJ, props=['C10', 'C11'], variant='probe-one_to_many')
class join_probe_1m(_LJProbeBase):
    __doc__ = _LJProbeBase.__doc__
    tier = 'thorough'

    def requires(self, other, left_on, right_on, expect):
        return _probe_pre(self, other, left_on, right_on) and expect == 'one_to_many'


@exit_assert(LJ)
def lj_exit(result, result_data=None, start=None, left_nrows=None, left_cols=None, right_cols=None):
    """At every return after the loops of the left join: no columns for an empty left table,
    otherwise the buffers wrapped column by column under the input columns' names."""
    if start is None or result_data is None:
        return True
    nout = sel(start, left_nrows)
    cols = list(left_cols) + list(right_cols)
    if left_nrows == 0:
        return len(result._underlying) == 0
    return (
        len(result._underlying) == len(cols)
        and all(len(result._underlying[c]._underlying) == nout for c in range(len(cols)))
        and all(result._underlying[c]._name == cols[c]._name for c in range(len(cols)))
        and forall('i', lambda q: implies(
            0 <= q < nout,
            all(S.same(S.at(result._underlying[c]._underlying, q), lat(result_data[c], q)) for c in range(len(cols)))))
    )


@contract(LJ, props=['C10', 'C18'], variant='wrap')
class join_wrap(_LJProbeBase):
    """C10 (left join, result assembly): the returned table is the buffers wrapped column by
    column under the input columns' names (exit assertion `lj_exit`)."""
    stop_after = ()
    assume_loops = ('lj_index_inv', 'lj_probe_inv')

    def requires(self, other, left_on, right_on, expect):
        return _probe_pre(self, other, left_on, right_on) and expect == 'many_to_many'


# =================================================================== Table.full_join, C10 / C11
FJ = 'serif.table.Table.full_join'
represent(FJ, right_index='symdict', duplicates='symdict', left_keys_seen='symset:key', matched_right_rows='symset:int',
          result_data='list_of_symlist')


def fj_index_ghost_step(k, right_keys, right_index, rpos):
    k0 = _row_key(right_keys, k)
    return {'rpos': upd(rpos, k, blen(right_index, k0) - 1)}


@loop_invariant(FJ, 'for right_idx in range(right_nrows)', havoc={'right_index': 'symdict', 'duplicates': 'symdict'},
                ghost={'rpos': 'intarr'}, ghost_init=ij_ghost_init, ghost_step=fj_index_ghost_step)
def fj_index_inv(k, right_keys, right_index, check_right_unique, rpos, duplicates=None):
    """Same index invariant as inner_join."""
    return ij_index_inv(k, right_keys, right_index, check_right_unique, rpos, duplicates)


@contract(FJ, props=['C10', 'C11'], variant='index-build')
class full_join_index(inner_join_index):
    """C10/C11 (full join, index build): every key maps to the ascending list of the right rows
    carrying it; the duplicate record is exact."""
    stop_after = ('fj_index_inv',)


def _matched_exact(upto, cur_key, left_keys, right_keys, right_index, matched, lastl, right_nrows):
    """`matched` is exactly the set of right rows whose key equals the key of a processed left row
    (cur_key: the left row being processed, whose bucket is partly recorded; None between rows)."""
    d = right_index
    return (
        forall('ii', lambda l, p: implies(0 <= l < upto and 0 <= p < blen(d, _row_key(left_keys, l)),
                                          smem(matched, bat(d, _row_key(left_keys, l), p))))
        and forall('i', lambda r: implies(
            smem(matched, r),
            0 <= r < right_nrows and (
                (0 <= sel(lastl, _row_key(right_keys, r)) < upto
                 and _row_key(left_keys, sel(lastl, _row_key(right_keys, r))) == _row_key(right_keys, r))
                or (cur_key is not None and _row_key(right_keys, r) == cur_key))))
    )


def fj_probe_ghost_init():
    return {'start': S.ghost_zero_int(), 'seenby': S.ghost_zero_key(), 'lastl': S.ghost_zero_key()}


def fj_probe_ghost_step(k, result_data, start, left_keys, seenby, lastl, check_left_unique):
    sb = seenby
    if check_left_unique:
        sb = upd(seenby, _row_key(left_keys, k), k)
    return {'start': upd(start, k + 1, llen(result_data[0])), 'seenby': sb, 'lastl': upd(lastl, _row_key(left_keys, k), k)}


@loop_invariant(FJ, 'for left_idx in range(left_nrows)',
                havoc={'result_data': 'list_of_symlist', 'left_keys_seen': 'symset', 'matched_right_rows': 'symset'},
                ghost={'start': 'intarr', 'seenby': 'keyintarr', 'lastl': 'keyintarr'},
                ghost_init=fj_probe_ghost_init, ghost_step=fj_probe_ghost_step)
def fj_probe_inv(k, left_keys, right_keys, left_cols, right_cols, right_index, result_data, start, check_left_unique, seenby,
                 lastl, matched_right_rows, right_nrows, left_keys_seen=None):
    """After k left rows of a full join: the left-join blocks so far, the exact seen-set, and the
    exact set of matched right rows."""
    return (
        all(llen(col) == sel(start, k) for col in result_data)
        and sel(start, k) >= 0
        and _lj_rows_ok(k, left_keys, left_cols, right_cols, right_index, result_data, start)
        and _matched_exact(k, None, left_keys, right_keys, right_index, matched_right_rows, lastl, right_nrows)
        and (left_keys_seen is None or (
            forall('i', lambda l: implies(0 <= l < k, smem(left_keys_seen, _row_key(left_keys, l))))
            and forall('k', lambda q: implies(smem(left_keys_seen, q), 0 <= sel(seenby, q) < k and _row_key(left_keys, sel(seenby, q)) == q))))
    )


@loop_invariant(FJ, 'for right_idx in matches', havoc={'result_data': 'list_of_symlist', 'matched_right_rows': 'symset'})
def fj_emit_inv(k, left_idx, matches, left_keys, right_keys, left_cols, right_cols, right_index, result_data, start,
                lastl, matched_right_rows, right_nrows):
    nl = len(left_cols)
    return (
        all(llen(col) == sel(start, left_idx) + k for col in result_data)
        and _lj_rows_ok(left_idx, left_keys, left_cols, right_cols, right_index, result_data, start)
        and _matched_exact(left_idx, _row_key(left_keys, left_idx), left_keys, right_keys, right_index, matched_right_rows, lastl, right_nrows)
        and forall('i', lambda p: implies(0 <= p < k, smem(matched_right_rows, S.at(matches, p))))
        and forall('i', lambda q: implies(
            sel(start, left_idx) <= q < sel(start, left_idx) + k,
            all(S.same(lat(result_data[c], q), S.at(left_cols[c]._underlying, left_idx)) for c in range(len(left_cols)))
            and all(S.same(lat(result_data[nl + c], q), S.at(right_cols[c]._underlying, S.at(matches, q - sel(start, left_idx))))
                    for c in range(len(right_cols)))))
    )


class _FJProbeBase(_ProbeBase):
    """C10 (full join, left phase; one key column and one payload column per side, any row counts,
    any keys): the left-join blocks (one row per match in ascending right order, or one None-padded
    row), and `matched_right_rows` is exactly the set of right rows whose key occurs on the left
    (invariants `fj_probe_inv`, `fj_emit_inv`); C11: the left seen-set is exact."""
    stop_after = ('fj_probe_inv',)
    assume_loops = ('fj_index_inv',)


@contract(FJ, props=['C10', 'C11'], variant='probe-many_to_many')
class full_join_probe_mm(_FJProbeBase):
    __doc__ = _FJProbeBase.__doc__

    def requires(self, other, left_on, right_on, expect):
        return _probe_pre(self, other, left_on, right_on) and expect == 'many_to_many'


@contract(FJ, props=['C10', 'C11'], variant='probe-one_to_one')
class full_join_probe_11(_FJProbeBase):
    __doc__ = _FJProbeBase.__doc__

    def requires(self, other, left_on, right_on, expect):
        return _probe_pre(self, other, left_on, right_on) and expect == 'one_to_one'


def _unmatched_rows_ok(upto, n2, right_cols, left_cols, matched, result_data, ustart):
    """Rows appended by the third phase for the right rows r < upto: unmatched right rows in
    ascending order, each one row (None in every left column, r's cells on the right)."""
    nl = len(left_cols)
    return (
        sel(ustart, 0) == n2
        and forall('i', lambda r: implies(0 <= r < upto and smem(matched, r), sel(ustart, r + 1) == sel(ustart, r)))
        and forall('i', lambda r: implies(0 <= r < upto and not smem(matched, r), sel(ustart, r + 1) == sel(ustart, r) + 1))
        and forall('i', lambda r: implies(0 <= r < upto, n2 <= sel(ustart, r) and sel(ustart, r) <= sel(ustart, upto)))
        and forall('i', lambda r: implies(0 <= r < upto and not smem(matched, r), sel(ustart, r) < sel(ustart, upto)))
        and forall('i', lambda r: implies(
            0 <= r < upto and not smem(matched, r),
            all(lat(result_data[c], sel(ustart, r)) is None for c in range(len(left_cols)))
            and all(S.same(lat(result_data[nl + c], sel(ustart, r)), S.at(right_cols[c]._underlying, r)) for c in range(len(right_cols)))))
    )


def fj_tail_ghost_init(start, left_nrows):
    return {'ustart': upd(S.ghost_zero_int(), 0, sel(start, left_nrows))}


def fj_tail_ghost_step(k, result_data, ustart):
    return {'ustart': upd(ustart, k + 1, llen(result_data[0]))}


@loop_invariant(FJ, 'for right_idx in range(right_nrows)#2', havoc={'result_data': 'list_of_symlist'},
                ghost={'ustart': 'intarr'}, ghost_init=fj_tail_ghost_init, ghost_step=fj_tail_ghost_step)
def fj_tail_inv(k, left_keys, left_cols, right_cols, right_index, result_data, start, left_nrows, matched_right_rows, ustart):
    """After k right rows of the third phase: the left-phase rows are untouched and every unmatched
    right row so far has been appended once, in ascending order."""
    return (
        all(llen(col) == sel(ustart, k) for col in result_data)
        and _lj_rows_ok(left_nrows, left_keys, left_cols, right_cols, right_index, result_data, start)
        and _unmatched_rows_ok(k, sel(start, left_nrows), right_cols, left_cols, matched_right_rows, result_data, ustart)
    )


@contract(FJ, props=['C10'], variant='tail')
class full_join_tail(_FJProbeBase):
    """C10 (full join, third phase): after the left phase every right row that matched no left
    row is appended exactly once, in ascending right order, with None in every left column; the
    rows of the left phase stay as they were (invariant `fj_tail_inv`)."""
    stop_after = ('fj_tail_inv',)
    assume_loops = ('fj_index_inv', 'fj_probe_inv')

    def requires(self, other, left_on, right_on, expect):
        return _probe_pre(self, other, left_on, right_on) and expect == 'many_to_many'


@exit_assert(FJ)
def fj_exit(result, result_data=None, ustart=None, left_nrows=None, right_nrows=None, left_cols=None, right_cols=None):
    """At every return after the three loops of the full join: no columns when both inputs are
    empty, otherwise the buffers wrapped column by column under the input columns' names."""
    if ustart is None or result_data is None:
        return True
    nout = sel(ustart, right_nrows)
    cols = list(left_cols) + list(right_cols)
    if left_nrows == 0 and right_nrows == 0:
        return len(result._underlying) == 0
    return (
        len(result._underlying) == len(cols)
        and all(len(result._underlying[c]._underlying) == nout for c in range(len(cols)))
        and all(result._underlying[c]._name == cols[c]._name for c in range(len(cols)))
        and forall('i', lambda q: implies(
            0 <= q < nout,
            all(S.same(S.at(result._underlying[c]._underlying, q), lat(result_data[c], q)) for c in range(len(cols)))))
    )


@contract(FJ, props=['C10', 'C18'], variant='wrap')
class full_join_wrap(_FJProbeBase):
    """C10 (full join, result assembly): the returned table is the buffers wrapped column by
    column under the input columns' names (exit assertion `fj_exit`)."""
    stop_after = ()
    assume_loops = ('fj_index_inv', 'fj_probe_inv', 'fj_tail_inv')

    def requires(self, other, left_on, right_on, expect):
        return _probe_pre(self, other, left_on, right_on) and expect == 'many_to_many'


# =================================================================== two key columns per side (thorough tier)
_P2 = {'self': 'table1', 'other': 'table1', 'left_on': 'listof:2:dvector', 'right_on': 'listof:2:dvector', 'expect': 'str'}


@contract(IJ, props=['C09', 'C11'], variant='index-build-2keys')
class inner_join_index_2(inner_join_index):
    """C09/C11 (index build, TWO key columns per side): as `index-build` with key tuples of two
    components."""
    params = _P2
    tier = 'thorough'


@contract(IJ, props=['C09', 'C11'], variant='probe-2keys-many_to_many')
class inner_join_probe_2mm(_ProbeBase):
    """C09 (probe / emit loops, TWO key columns per side, expect='many_to_many')."""
    params = _P2
    tier = 'thorough'

    def requires(self, other, left_on, right_on, expect):
        return _probe_pre(self, other, left_on, right_on) and expect == 'many_to_many'


@contract(IJ, props=['C09', 'C11'], variant='probe-2keys-one_to_one')
class inner_join_probe_211(_ProbeBase):
    """C09/C11 (probe / emit loops, TWO key columns per side, expect='one_to_one')."""
    params = _P2
    tier = 'thorough'

    def requires(self, other, left_on, right_on, expect):
        return _probe_pre(self, other, left_on, right_on) and expect == 'one_to_one'


@contract(LJ, props=['C10', 'C11'], variant='index-build-2keys')
class join_index_2(join_index):
    """C10/C11 (left join, index build, TWO key columns per side)."""
    params = _P2
    tier = 'thorough'


@contract(LJ, props=['C10', 'C11'], variant='probe-2keys-many_to_many')
class join_probe_2mm(_LJProbeBase):
    """C10 (left join, probe / emit loops, TWO key columns per side, expect='many_to_many')."""
    params = _P2
    tier = 'thorough'

    def requires(self, other, left_on, right_on, expect):
        return _probe_pre(self, other, left_on, right_on) and expect == 'many_to_many'


@contract(FJ, props=['C10', 'C11'], variant='index-build-2keys')
class full_join_index_2(full_join_index):
    """C10/C11 (full join, index build, TWO key columns per side)."""
    params = _P2
    tier = 'thorough'


@contract(FJ, props=['C10', 'C11'], variant='probe-2keys-many_to_many')
class full_join_probe_2mm(_FJProbeBase):
    """C10 (full join, left phase, TWO key columns per side, expect='many_to_many')."""
    params = _P2
    tier = 'thorough'

    def requires(self, other, left_on, right_on, expect):
        return _probe_pre(self, other, left_on, right_on) and expect == 'many_to_many'


@contract(FJ, props=['C10'], variant='tail-2keys')
class full_join_tail_2(full_join_tail):
    """C10 (full join, third phase, TWO key columns per side)."""
    params = _P2
    tier = 'thorough'


# =================================================================== aggregate: result assembly (C12)
def _agg_expected(group_vals, sum_over, mean_over, min_over, max_over, count_over, stdev_over):
    if sum_over is not None:
        return S.sum_spec(group_vals)
    if mean_over is not None:
        return S.mean_spec(group_vals)
    if min_over is not None:
        return S.min_spec(group_vals)
    if max_over is not None:
        return S.max_spec(group_vals)
    if count_over is not None:
        return S.count_spec(group_vals)
    return S.stdev_spec(group_vals)


def _agg_column(sum_over, mean_over, min_over, max_over, count_over, stdev_over):
    for spec in (sum_over, mean_over, min_over, max_over, count_over, stdev_over):
        if spec is not None:
            return spec[0]
    return None


@exit_assert(AGG)
def agg_exit(result, any_int_g, partition_index=None, over_data=None, sum_over=None, mean_over=None, min_over=None,
             max_over=None, count_over=None, stdev_over=None):
    """At the return of aggregate (one key vector, one aggregated column): one row per distinct
    key, in first-appearance order; row g holds the g-th key and the aggregator's spec applied to
    exactly the values of the rows in that key's bucket (bucket order).  `any_int_g` is an
    arbitrary group index."""
    col = _agg_column(sum_over, mean_over, min_over, max_over, count_over, stdev_over)
    if partition_index is None or col is None:
        return True
    d = partition_index
    g = any_int_g
    nk = len(over_data)
    if not (len(result._underlying) == nk + 1
            and all(len(result._underlying[c]._underlying) == dcount(d) for c in range(nk + 1))):
        return False
    if not (0 <= g < dcount(d)):
        return True
    group_vals = [S.at(col._underlying, bat(d, dord(d, g), p)) for p in range(blen(d, dord(d, g)))]
    return (all(S.same(S.at(result._underlying[c]._underlying, g), S.key_part(dord(d, g), c)) for c in range(nk))
            and S.same(S.at(result._underlying[nk]._underlying, g),
                       _agg_expected(group_vals, sum_over, mean_over, min_over, max_over, count_over, stdev_over)))


@contract(AGG, props=['C12'], variant='assemble-1key-sum')
class aggregate_assemble(aggregate_partition):
    """C12 (result assembly, one key vector, one summed column; any number of rows): with the
    partition invariant at the loop exit, the returned table has one row per distinct key in
    first-appearance order, the key column holds the keys and the value column holds the sum
    spec of each bucket's values (exit assertion `agg_exit`, proved for an arbitrary group)."""
    stop_after = ()
    assume_loops = ('agg_partition_inv',)


def _agg_params(which):
    p = {'self': 'table1', 'over': 'dvector', 'sum_over': 'none', 'mean_over': 'none', 'min_over': 'none',
         'max_over': 'none', 'stdev_over': 'none', 'count_over': 'none', 'apply': 'none'}
    p[which + '_over'] = 'dvector'
    return p


@contract(AGG, props=['C12'], variant='assemble-1key-mean')
class aggregate_assemble_mean(aggregate_assemble):
    """C12 (result assembly, MEAN): as `assemble-1key-sum` with the mean spec."""
    params = _agg_params('mean')
    tier = 'thorough'


@contract(AGG, props=['C12'], variant='assemble-1key-min')
class aggregate_assemble_min(aggregate_assemble):
    """C12 (result assembly, MIN)."""
    params = _agg_params('min')
    tier = 'thorough'


@contract(AGG, props=['C12'], variant='assemble-1key-max')
class aggregate_assemble_max(aggregate_assemble):
    """C12 (result assembly, MAX)."""
    params = _agg_params('max')
    tier = 'thorough'


@contract(AGG, props=['C12'], variant='assemble-1key-count')
class aggregate_assemble_count(aggregate_assemble):
    """C12 (result assembly, COUNT)."""
    params = _agg_params('count')
    tier = 'thorough'

# (STDEV: the assembled value involves a second filtered pass and a real-valued power; the exit
# obligation does not discharge reliably, so that aggregator's assembly stays bounded; its body is
# under the aggregator contract `aggregate.<locals>.stdev_func`.)


# =================================================================== Table.window (C13)
WIN = 'serif.table.Table.window'
WIN_CGV = WIN + '.<locals>.compute_group_values'
represent(WIN, partition_index='symdict', row_keys='symkeylist')
represent(WIN_CGV, out='symmap')
from contracts.specs import kat, mhas, mget  # noqa: E402


@loop_invariant(WIN, 'for i in range(nrows)', havoc={'partition_index': 'symdict', 'row_keys': 'symkeylist'},
                ghost={'pos': 'intarr', 'gidx': 'keyintarr'}, ghost_init=agg_ghost_init, ghost_step=agg_ghost_step)
def win_partition_inv(k, over_data, partition_index, pos, gidx, row_keys):
    """The partition invariant of aggregate, plus: row_keys[e] is the key tuple of row e."""
    return (agg_partition_inv(k, over_data, partition_index, pos, gidx)
            and forall('i', lambda e: implies(0 <= e < k, kat(row_keys, e) == _agg_key(over_data, e))))


@contract(WIN + '.<locals>.uniquify', props=[])
class win_uniquify:
    """Output-name uniquification (C18: bounded): an opaque string at the value level."""
    nested = (WIN, 'uniquify', 0)
    params = {'name': 'any'}
    trusted = True
    result_sort = 'str'


@contract(WIN + '.<locals>.sanitize', props=[])
class win_sanitize:
    nested = (WIN, 'sanitize', 0)
    params = {'col': 'opaque', 'suffix': 'any'}
    trusted = True
    result_sort = 'str'


@contract(WIN, props=['C13'], variant='partition-1key-sum')
class window_partition:
    """C13 (partition loop, one key vector, one summed column; any number of rows): the index maps
    every distinct key to the ascending list of its rows and `row_keys[i]` is row i's key
    (invariant `win_partition_inv`)."""
    params = {'self': 'table1', 'over': 'dvector', 'sum_over': 'dvector', 'mean_over': 'none', 'min_over': 'none',
              'max_over': 'none', 'stdev_over': 'none', 'count_over': 'none', 'apply': 'none'}
    may_raise = [SerifValueError, ValueError]
    stop_after = ('win_partition_inv',)
    quant_prune = False

    def requires(self, over, sum_over):
        return S.rect(self)


def _bucket_vals(data, d, q):
    """the values of the rows in the bucket of key q, in bucket (= row) order"""
    return [S.at(data, bat(d, q, p)) for p in range(blen(d, q))]


@loop_invariant(WIN_CGV, 'for key, rows in group_items', havoc={'out': 'symmap'})
def win_cgv_inv(k, out, partition_index, gidx, data, fn, any_int_G):
    """After k groups: `out` holds exactly the first k keys (insertion order), and - for the
    arbitrary but fixed group G - the value under the G-th key is fn applied to the values of the
    rows of that key's bucket."""
    d = partition_index
    G = any_int_G
    dom = (forall('i', lambda g: implies(0 <= g < k, mhas(out, dord(d, g))))
           and forall('k', lambda q: implies(mhas(out, q), 0 <= sel(gidx, q) < k and dord(d, sel(gidx, q)) == q)))
    # explicit case split (a path split, not a disjunction inside one formula): the reduction over
    # the group's values is an uninterpreted function of a sequence *class*, and the class of the
    # values just computed is identified with the class of G's bucket only where G is known to be
    # the group just processed
    if G >= 0 and G == k - 1:
        val = S.same(mget(out, dord(d, k - 1)), fn(_bucket_vals(data, d, dord(d, k - 1))))
    else:
        val = implies(0 <= G < k - 1, S.same(mget(out, dord(d, G)), fn(_bucket_vals(data, d, dord(d, G)))))
    return dom and val


@exit_assert(WIN)
def win_exit(result, any_int_R, any_int_G=None, partition_index=None, gidx=None, over_data=None, sum_over=None,
             mean_over=None, min_over=None, max_over=None, count_over=None, stdev_over=None, nrows=None):
    """At the return of window (one key vector, one aggregated column): as many rows as the input,
    the key column reproduced unchanged, and row R (arbitrary) holds the aggregator's spec of the
    values of the rows of R's group - the value aggregate computes for that group (`agg_exit` uses
    the same spec functions).  (G is the arbitrary group index of `win_cgv_inv`; the statement is
    proved for the case G = rank of R's key, which is the general case since both are arbitrary.)"""
    col = _agg_column(sum_over, mean_over, min_over, max_over, count_over, stdev_over)
    if partition_index is None or col is None or any_int_G is None:
        return True
    d = partition_index
    R = any_int_R
    nk = len(over_data)
    if not (len(result._underlying) == nk + 1
            and all(len(result._underlying[c]._underlying) == nrows for c in range(nk + 1))):
        return False
    if not (0 <= R < nrows):
        return True
    if not all(S.same(S.at(result._underlying[c]._underlying, R), S.at(over_data[c], R)) for c in range(nk)):
        return False
    kR = _agg_key(over_data, R)
    if not (any_int_G == sel(gidx, kR)):
        return True
    return S.same(S.at(result._underlying[nk]._underlying, R),
                  _agg_expected(_bucket_vals(col._underlying, d, kR), sum_over, mean_over, min_over, max_over, count_over, stdev_over))


@contract(WIN, props=['C13'], variant='assemble-1key-sum')
class window_assemble(window_partition):
    """C13 (group values and expansion, one key vector, one summed column; any number of rows):
    with the partition invariant at the loop exit, `compute_group_values` fills the group map under
    the invariant `win_cgv_inv`, and the returned table has the input's row count, the key column
    unchanged and, in every row, the SUM spec of the row's group (exit assertion `win_exit`, proved
    for an arbitrary row)."""
    stop_after = ()
    assume_loops = ('win_partition_inv',)
    generics = ('any_int_G',)


@contract(WIN, props=['C13'], variant='assemble-1key-mean')
class window_assemble_mean(window_assemble):
    """C13 (group values and expansion, MEAN)."""
    params = _agg_params('mean')
    tier = 'thorough'


@contract(WIN, props=['C13'], variant='assemble-1key-min')
class window_assemble_min(window_assemble):
    """C13 (group values and expansion, MIN)."""
    params = _agg_params('min')
    tier = 'thorough'


@contract(WIN, props=['C13'], variant='assemble-1key-max')
class window_assemble_max(window_assemble):
    """C13 (group values and expansion, MAX)."""
    params = _agg_params('max')
    tier = 'thorough'


@contract(WIN, props=['C13'], variant='assemble-1key-count')
class window_assemble_count(window_assemble):
    """C13 (group values and expansion, COUNT)."""
    params = _agg_params('count')
    tier = 'thorough'


# =================================================================== Table.sort_by (C14)
SB = 'serif.table.Table.sort_by'


def _strictly_before(a, b, rev, na_last):
    """the statement's order on one key: does a row with key a have to come strictly before a row
    with key b?  None last (first with na_last=False) whatever the direction; otherwise by value in
    the key's direction; identical or equal values tie."""
    if a is None and b is None:
        return False
    if a is None:
        return not na_last
    if b is None:
        return na_last
    if S.same(a, b) or a == b:
        return False
    return (b < a) if rev else (a < b)


def _lex_before(keys_i, keys_j, revs, na_last):
    """lexicographic: strictly before on the first key that does not tie"""
    if len(keys_i) == 0:
        return False
    if _strictly_before(keys_i[0], keys_j[0], revs[0], na_last):
        return True
    if _strictly_before(keys_j[0], keys_i[0], revs[0], na_last):
        return False
    return _lex_before(keys_i[1:], keys_j[1:], revs[1:], na_last)


@exit_assert(SB)
def sb_exit(result, any_int_P, any_int_Q, self=None, indices=None, resolved=None, rev_flags=None, na_last=None, nrows=None):
    """At the return of sort_by (after the sorting loop), for two arbitrary output positions P < Q
    with source rows i = indices[P], j = indices[Q]: same shape and names as the input; i and j are
    distinct rows of the input (with the row count unchanged: a permutation); every column holds the
    source rows' cells (cells kept together); row j does not have to come strictly before row i in
    the lexicographic key order (each key in its direction, None placed by na_last); and if neither
    has to come before the other, i < j (ties keep their original order)."""
    if indices is None or resolved is None or nrows is None:
        return True
    P, Q = any_int_P, any_int_Q
    ncols = len(self._underlying)
    if not (len(result._underlying) == ncols
            and all(len(result._underlying[c]._underlying) == nrows for c in range(ncols))
            and all(result._underlying[c]._name == self._underlying[c]._name for c in range(ncols))):
        return False
    if not (0 <= P < Q < nrows):
        return True
    i = S.at(indices, P)
    j = S.at(indices, Q)
    if not (0 <= i < nrows and 0 <= j < nrows and i != j):
        return False
    if not all(S.same(S.at(result._underlying[c]._underlying, P), S.at(self._underlying[c]._underlying, i))
               and S.same(S.at(result._underlying[c]._underlying, Q), S.at(self._underlying[c]._underlying, j))
               for c in range(ncols)):
        return False
    ki = [S.at(col._underlying, i) for col in resolved]
    kj = [S.at(col._underlying, j) for col in resolved]
    if _lex_before(kj, ki, rev_flags, na_last):
        return False
    return _lex_before(ki, kj, rev_flags, na_last) or i < j


@contract(SB, props=['C14'], variant='one-key')
class sort_by_one_key:
    """C14 (Table.sort_by, one key vector, two columns, any number of rows, either direction,
    either None placement): under the trusted stable-sort contract of `list.sort`, the real text
    (key function with its flipped None flag, `reverse=rev`, rebuilding of the columns) returns a
    permutation of the rows with cells kept together, ordered by the key in its direction with None
    placed by `na_last`, ties in original order (exit assertion `sb_exit`, arbitrary positions)."""
    params = {'self': 'table2', 'by': 'dvector', 'reverse': 'bool', 'na_last': 'bool'}
    from serif.errors import SerifTypeError as _T
    may_raise = [SerifValueError, _T]
    quant_prune = False

    def requires(self, by):
        return S.rect(self) and S.truthful(by) and all(S.truthful(c) for c in self._underlying)


@contract(SB, props=['C14'], variant='two-keys')
class sort_by_two_keys(sort_by_one_key):
    """C14 (Table.sort_by, TWO key vectors with independent directions): the two successive stable
    sorts (last key first) give the lexicographic order - first key in its direction, ties broken
    by the second key in its direction, remaining ties in original order."""
    params = {'self': 'table2', 'by': 'listof:2:dvector', 'reverse': 'listof:2:bool', 'na_last': 'bool'}
    tier = 'thorough'

    def requires(self, by):
        return S.rect(self) and all(S.truthful(v) for v in by) and all(S.truthful(c) for c in self._underlying)


# =================================================================== Vector.sort_by (C14)
VSB = 'serif.vector.Vector.sort_by'


@exit_assert(VSB)
def vsb_exit(result, any_int_P, any_int_Q, self=None, new_values=None, reverse=None, na_last=None):
    """Vector.sort_by obeys the same contract: same length, name and dtype; for two arbitrary output
    positions P < Q with source positions i, j: distinct positions of the input, the same elements,
    j does not have to come strictly before i (direction, None placement), ties keep their order."""
    if new_values is None:
        return True
    n = len(self._underlying)
    P, Q = any_int_P, any_int_Q
    if not (len(result._underlying) == n and result._name == self._name and result._dtype == self._dtype):
        return False
    if not (0 <= P < Q < n):
        return True
    i = S.sort_source(new_values, P)
    j = S.sort_source(new_values, Q)
    if not (0 <= i < n and 0 <= j < n and i != j):
        return False
    a = S.at(self._underlying, i)
    b = S.at(self._underlying, j)
    if not (S.same(S.at(result._underlying, P), a) and S.same(S.at(result._underlying, Q), b)):
        return False
    rev = True if reverse else False
    nl = True if na_last else False
    if _strictly_before(b, a, rev, nl):
        return False
    return _strictly_before(a, b, rev, nl) or i < j


@contract(VSB, props=['C14'], variant='stable-sort')
class vector_sort_by:
    """C14 (Vector.sort_by, any length, either direction, either None placement): under the trusted
    stable-sort contract of `sorted`, the result is a permutation of the elements ordered by value
    in the requested direction, None placed by `na_last` whatever the direction, ties in original
    order, with the name and dtype of the input (exit assertion `vsb_exit`)."""
    params = {'self': 'vector', 'reverse': 'bool', 'na_last': 'bool'}
    quant_prune = False

    def requires(self):
        return (self._dtype is None or S.valid_dtype(self._dtype)) and S.truthful(self)


# =================================================================== two partition key columns (thorough tier)
def _agg_params2(which):
    p = _agg_params(which)
    p['over'] = 'listof:2:dvector'
    return p


@contract(AGG, props=['C12'], variant='partition-2keys-sum')
class aggregate_partition_2(aggregate_partition):
    """C12 (partition loop, TWO key vectors)."""
    params = _agg_params2('sum')
    tier = 'thorough'


@contract(AGG, props=['C12'], variant='assemble-2keys-sum')
class aggregate_assemble_2(aggregate_assemble):
    """C12 (result assembly, TWO key vectors, SUM): one row per distinct key pair in first-appearance
    order, both key columns, the sum spec of the bucket."""
    params = _agg_params2('sum')
    tier = 'thorough'


@contract(WIN, props=['C13'], variant='partition-2keys-sum')
class window_partition_2(window_partition):
    """C13 (partition loop, TWO key vectors)."""
    params = _agg_params2('sum')
    tier = 'thorough'


@contract(WIN, props=['C13'], variant='assemble-2keys-sum')
class window_assemble_2(window_assemble):
    """C13 (group values and expansion, TWO key vectors, SUM)."""
    params = _agg_params2('sum')
    tier = 'thorough'

"""Sidecar for the hash-index loops of serif/table.py (C12, C13, C09-C11): container
representations, loop invariants with ghost witnesses, exit assertions (DESIGN appendix A.3-A.5).

Scope of these proofs: a concrete (small) number of key / value columns, an ARBITRARY number of
rows and arbitrary key values; key equality only - hash values never occur, so the facts hold for
every PYTHONHASHSEED under the dict assumption (insertion order, lookup by equality)."""
from pyvc.contract import contract, loop_invariant, represent, exit_assert
from serif.errors import SerifValueError
from serif.table import Table
from serif.vector import Vector
from contracts import specs as S
from contracts.specs import mk_key, blen, bat, dcount, dord, sel, upd, forall, implies

AGG = 'serif.table.Table.aggregate'
represent(AGG, partition_index='symdict')


def _agg_key(over_data, e):
    return mk_key(*[S.at(col, e) for col in over_data])


def agg_ghost_init():
    # pos[e]: where row e sits in its bucket; gidx[k]: insertion rank of key k
    return {'pos': upd(upd_zero(), 0, 0), 'gidx': updk_zero()}


def upd_zero():
    return S.ghost_zero_int()


def updk_zero():
    return S.ghost_zero_key()


def agg_ghost_step(k, over_data, partition_index, pos, gidx):
    k0 = _agg_key(over_data, k)
    n = blen(partition_index, k0)
    newg = gidx
    if n == 1:
        newg = upd(gidx, k0, dcount(partition_index) - 1)
    return {'pos': upd(pos, k, n - 1), 'gidx': newg}


@loop_invariant(AGG, 'for row_idx in range(nrows)', havoc={'partition_index': 'symdict'},
                ghost={'pos': 'intarr', 'gidx': 'keyintarr'}, ghost_init=agg_ghost_init, ghost_step=agg_ghost_step)
def agg_partition_inv(k, over_data, partition_index, pos, gidx):
    """After k rows: bucket(key) is exactly the ascending list of rows < k with that key, and the
    keys are ranked by first appearance."""
    d = partition_index
    return (
        dcount(d) >= 0
        and forall('k', lambda q: blen(d, q) >= 0)
        # every bucket entry is a processed row with that key
        and forall('ki', lambda q, p: implies(0 <= p < blen(d, q),
                                               0 <= bat(d, q, p) < k and _agg_key(over_data, bat(d, q, p)) == q))
        # buckets are strictly ascending (row order, no duplicates)
        and forall('kii', lambda q, p, r: implies(0 <= p < r < blen(d, q), bat(d, q, p) < bat(d, q, r)))
        # every processed row sits in the bucket of its key (ghost witness pos)
        and forall('i', lambda e: implies(0 <= e < k,
                                           0 <= sel(pos, e) < blen(d, _agg_key(over_data, e))
                                           and bat(d, _agg_key(over_data, e), sel(pos, e)) == e))
        # insertion order: exactly the non-empty keys, ranked by their first row
        and forall('i', lambda g: implies(0 <= g < dcount(d), blen(d, dord(d, g)) >= 1 and sel(gidx, dord(d, g)) == g))
        and forall('k', lambda q: implies(blen(d, q) >= 1, 0 <= sel(gidx, q) < dcount(d) and dord(d, sel(gidx, q)) == q))
        and forall('ii', lambda g, h: implies(0 <= g < h < dcount(d), bat(d, dord(d, g), 0) < bat(d, dord(d, h), 0)))
    )


@contract('serif.table.Table.aggregate.<locals>.uniquify', props=[])
class agg_uniquify:
    """Output-name uniquification (C18: bounded): an opaque string at the value level."""
    nested = (AGG, 'uniquify', 0)
    params = {'name': 'any'}
    trusted = True
    result_sort = 'str'


@contract(AGG, props=['C12'], variant='partition-1key-sum')
class aggregate_partition:
    """C12 (partition loop, one key vector, one summed column; any number of rows): the index
    built by the real loop maps every distinct key to the ascending list of its rows, keys
    ranked by first appearance (invariant `agg_partition_inv`: initiation + consecution)."""
    params = {'self': 'table1', 'over': 'dvector', 'sum_over': 'dvector', 'mean_over': 'none', 'min_over': 'none',
              'max_over': 'none', 'stdev_over': 'none', 'count_over': 'none', 'apply': 'none'}
    may_raise = [SerifValueError]
    stop_after = ('agg_partition_inv',)
    quant_prune = False

    def requires(self, over, sum_over):
        return S.rect(self)


# ================================================================== inner_join (C09, C11)
IJ = 'serif.table.Table.inner_join'
represent(IJ, right_index='symdict', duplicates='symdict', left_keys_seen='symset:key', result_data='list_of_symlist')


@contract('serif.table.Table._validate_join_keys', props=[])
class validate_join_keys:
    """Assumed at call sites (bounded under C09): for key specs given as Vectors of the tables'
    lengths it returns the one pair (left key, right key); malformed specs raise."""
    params = {'self': 'opaque', 'other': 'opaque', 'left_on': 'opaque', 'right_on': 'opaque'}
    trusted = True
    from serif.errors import SerifTypeError as _T, SerifKeyError as _K
    may_raise = [SerifValueError, _T, _K]

    def returns(left_on, right_on):
        return [(left_on, right_on)]


@contract('serif.table.Table._validate_key_tuple_hashable', props=[])
class validate_key_tuple_hashable:
    params = {'key_tuple': 'opaque', 'key_cols': 'opaque', 'row_idx': 'int'}
    trusted = True
    from serif.errors import SerifTypeError as _T
    may_raise = [_T]


def _row_key(cols, e):
    return mk_key(*[S.at(c._underlying, e) for c in cols])


def ij_ghost_init():
    return {'rpos': S.ghost_zero_int(), 'dupkey': mk_key(0)}


def ij_index_ghost_step(k, right_keys, right_index, rpos):
    k0 = _row_key(right_keys, k)
    return {'rpos': upd(rpos, k, blen(right_index, k0) - 1)}


@loop_invariant(IJ, 'for row_idx in range(right_nrows)', havoc={'right_index': 'symdict', 'duplicates': 'symdict'},
                ghost={'rpos': 'intarr'}, ghost_init=ij_ghost_init, ghost_step=ij_index_ghost_step)
def ij_index_inv(k, right_keys, right_index, check_right_unique, rpos, duplicates=None):
    """After k right rows: bucket(key) is exactly the ascending list of right rows < k with that
    key; `duplicates` is non-empty iff uniqueness is checked and some key occurs twice."""
    d = right_index
    return (
        forall('k', lambda q: blen(d, q) >= 0)
        and forall('ki', lambda q, p: implies(0 <= p < blen(d, q), 0 <= bat(d, q, p) < k and _row_key(right_keys, bat(d, q, p)) == q))
        and forall('kii', lambda q, p, r: implies(0 <= p < r < blen(d, q), bat(d, q, p) < bat(d, q, r)))
        and forall('i', lambda e: implies(0 <= e < k, 0 <= sel(rpos, e) < blen(d, _row_key(right_keys, e))
                                           and bat(d, _row_key(right_keys, e), sel(rpos, e)) == e))
        # cardinality bookkeeping (C11): recorded duplicates are real, and every real one is recorded
        and (duplicates is None or _dup_exact(d, duplicates))
    )


def _dup_exact(d, duplicates):
    return (dcount(duplicates) >= 0
            and forall('k', lambda q: blen(duplicates, q) >= 0)
            and forall('k', lambda q: implies(blen(duplicates, q) >= 1, blen(d, q) >= 2))
            and forall('k', lambda q: implies(blen(d, q) >= 2, blen(duplicates, q) >= 1 and dcount(duplicates) >= 1))
            and implies(dcount(duplicates) >= 1, blen(duplicates, dord(duplicates, 0)) >= 1))


@contract(IJ, props=['C09', 'C11'], variant='index-build')
class inner_join_index:
    """C09/C11 (index build, one key column per side, any number of rows): the hash index maps
    every key to the ascending list of the right rows carrying it, and the duplicate record is
    exact (invariant `ij_index_inv`: initiation + consecution on the real loop)."""
    params = {'self': 'table1', 'other': 'table1', 'left_on': 'dvector', 'right_on': 'dvector', 'expect': 'str'}
    from serif.errors import SerifTypeError as _T, SerifKeyError as _K
    may_raise = [SerifValueError, _T, _K]
    stop_after = ('ij_index_inv',)
    quant_prune = False

    def requires(self, other, left_on, right_on):
        return S.rect(self) and S.rect(other) and S.truthful(right_on) and S.truthful(left_on) and \
            len(right_on._underlying) == other._length and len(left_on._underlying) == self._length

"""Sidecar for the hash-index loops of serif/table.py (C12, C13, C09-C11): container
representations, loop invariants with ghost witnesses, exit assertions (DESIGN appendix A.3-A.5).

Scope of these proofs: a concrete (small) number of key / value columns, an ARBITRARY number of
rows and arbitrary key values; key equality only - hash values never occur, so the facts hold for
every PYTHONHASHSEED under the dict assumption (insertion order, lookup by equality)."""
from pyvc.contract import contract, loop_invariant, represent, exit_assert
from serif.errors import SerifValueError
from serif.table import Table
from serif.vector import Vector
from contracts import specs as S
from contracts.specs import mk_key, blen, bat, dcount, dord, sel, upd, forall, implies

AGG = 'serif.table.Table.aggregate'
represent(AGG, partition_index='symdict')


def _agg_key(over_data, e):
    return mk_key(*[S.at(col, e) for col in over_data])


def agg_ghost_init():
    # pos[e]: where row e sits in its bucket; gidx[k]: insertion rank of key k
    return {'pos': upd(upd_zero(), 0, 0), 'gidx': updk_zero()}


def upd_zero():
    return S.ghost_zero_int()


def updk_zero():
    return S.ghost_zero_key()


def agg_ghost_step(k, over_data, partition_index, pos, gidx):
    k0 = _agg_key(over_data, k)
    n = blen(partition_index, k0)
    newg = gidx
    if n == 1:
        newg = upd(gidx, k0, dcount(partition_index) - 1)
    return {'pos': upd(pos, k, n - 1), 'gidx': newg}


@loop_invariant(AGG, 'for row_idx in range(nrows)', havoc={'partition_index': 'symdict'},
                ghost={'pos': 'intarr', 'gidx': 'keyintarr'}, ghost_init=agg_ghost_init, ghost_step=agg_ghost_step)
def agg_partition_inv(k, over_data, partition_index, pos, gidx):
    """After k rows: bucket(key) is exactly the ascending list of rows < k with that key, and the
    keys are ranked by first appearance."""
    d = partition_index
    return (
        dcount(d) >= 0
        and forall('k', lambda q: blen(d, q) >= 0)
        # every bucket entry is a processed row with that key
        and forall('ki', lambda q, p: implies(0 <= p < blen(d, q),
                                               0 <= bat(d, q, p) < k and _agg_key(over_data, bat(d, q, p)) == q))
        # buckets are strictly ascending (row order, no duplicates)
        and forall('kii', lambda q, p, r: implies(0 <= p < r < blen(d, q), bat(d, q, p) < bat(d, q, r)))
        # every processed row sits in the bucket of its key (ghost witness pos)
        and forall('i', lambda e: implies(0 <= e < k,
                                           0 <= sel(pos, e) < blen(d, _agg_key(over_data, e))
                                           and bat(d, _agg_key(over_data, e), sel(pos, e)) == e))
        # insertion order: exactly the non-empty keys, ranked by their first row
        and forall('i', lambda g: implies(0 <= g < dcount(d), blen(d, dord(d, g)) >= 1 and sel(gidx, dord(d, g)) == g))
        and forall('k', lambda q: implies(blen(d, q) >= 1, 0 <= sel(gidx, q) < dcount(d) and dord(d, sel(gidx, q)) == q))
        and forall('ii', lambda g, h: implies(0 <= g < h < dcount(d), bat(d, dord(d, g), 0) < bat(d, dord(d, h), 0)))
    )


@contract('serif.table.Table.aggregate.<locals>.uniquify', props=[])
class agg_uniquify:
    """Output-name uniquification (C18: bounded): an opaque string at the value level."""
    nested = (AGG, 'uniquify', 0)
    params = {'name': 'any'}
    trusted = True
    result_sort = 'str'


@contract(AGG, props=['C12'], variant='partition-1key-sum')
class aggregate_partition:
    """C12 (partition loop, one key vector, one summed column; any number of rows): the index
    built by the real loop maps every distinct key to the ascending list of its rows, keys
    ranked by first appearance (invariant `agg_partition_inv`: initiation + consecution)."""
    params = {'self': 'table1', 'over': 'dvector', 'sum_over': 'dvector', 'mean_over': 'none', 'min_over': 'none',
              'max_over': 'none', 'stdev_over': 'none', 'count_over': 'none', 'apply': 'none'}
    may_raise = [SerifValueError]
    stop_after = ('agg_partition_inv',)

    def requires(self, over, sum_over):
        return S.rect(self)

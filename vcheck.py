#!/usr/bin/env python3
"""./check <Cxx> [--tier quick|thorough] [--replay <file>] | --setup | --all

Per property: (1) generate verification conditions from the AST of the real functions under
contract (re-read from /repo on every run) and discharge them with z3 / cvc5; (2) run the
pyframe / pylang obligations where the property has them; (3) run the bounded stand-in
(same spec functions, executed natively over an exhaustive small scope, labelled bounded);
(4) decide, write evidence/<id>.json, print VIOLATION / KNOWN-FINDING / UNDECIDED lines.

Exit: 0 held on everything explored · 1 violation · 2 undecided with nothing standing in ·
3 checker defect (axiom validation, vacuity guard, internal error).
"""
import argparse
import json
import multiprocessing as mp
import os
import subprocess
import sys
import time

HERE = os.path.dirname(os.path.abspath(__file__))
sys.path.insert(0, HERE)
REPO_SRC = os.environ.get('SERIF_SRC', '/repo/src')
sys.path.insert(0, REPO_SRC)
VENV_PY = '/venv/bin/python'

from vconfig import PROPS, SIDECARS, TRUSTED_COMMON   # noqa: E402


def load_all():
    import importlib
    for m in SIDECARS:
        importlib.import_module(m)
    from pyvc import contract as C
    return C


def _verify_one(args):
    idx, is_lemma, tier = args
    C = load_all()
    c = C.LEMMAS[idx] if is_lemma else C.all_contracts()[idx]
    tmo = 10000 if tier == 'quick' else 60000
    os.environ.setdefault('PYVC_CONTRACT_BUDGET_S', '600' if tier == 'quick' else '2400')
    rep = C.verify_contract(c, timeout_ms=tmo)
    obs = []
    for ob in rep.obligations:
        d = {'name': ob.name, 'kind': ob.kind, 'status': ob.status, 'backend': ob.backend,
             'time_s': round(ob.time_s, 4), 'exact': ob.exact, 'reason': ob.reason}
        if ob.model is not None:
            d['model'] = str(ob.model)[:2000]
        if tier == 'thorough' and ob.status == 'discharged':
            from pyvc.explore import cross_check
            be, res = cross_check(ob)
            d['cross_check'] = f'{be}:{res}'
        obs.append(d)
    return {'qual': c.qual, 'kind': c.kind, 'props': c.props, 'paths': rep.paths,
            'error': rep.error, 'time_s': round(rep.time_s, 3), 'source': rep.source,
            'obligations': obs, 'assumptions': getattr(rep, 'assumptions', []),
            'note': c.note}


def run_proofs(pid, tier):
    C = load_all()
    jobs = []
    for i, c in enumerate(C.all_contracts()):
        if pid in c.props and (tier == 'thorough' or c.tier == 'quick'):
            jobs.append((i, False, tier))
    for i, c in enumerate(C.LEMMAS):
        if pid in c.props:
            jobs.append((i, True, tier))
    if not jobs:
        return []
    with mp.get_context('fork').Pool(min(16, len(jobs))) as pool:
        return pool.map(_verify_one, jobs, chunksize=1)


def run_bounded(pid, tier, seed):
    mod = os.path.join(HERE, 'bounded', pid.lower() + '.py')
    if not os.path.exists(mod):
        return None
    env = dict(os.environ, PYTHONPATH=f'{REPO_SRC}:{HERE}', PYTHONHASHSEED=os.environ.get('PYTHONHASHSEED', '0'))
    p = subprocess.run([VENV_PY, mod, '--tier', tier, '--seed', str(seed)], capture_output=True,
                       text=True, env=env, cwd=HERE, timeout=3000)
    lines = [l for l in p.stdout.splitlines() if l.startswith('RESULT ')]
    if p.returncode != 0 or not lines:
        return {'crashed': True, 'stderr': (p.stderr or '')[-3000:], 'stdout': p.stdout[-2000:]}
    return json.loads(lines[-1][7:])


def run_extra(pid, tier):
    """pyframe / pylang obligations (run in-process under python3-vt)."""
    out = []
    for modname in PROPS[pid].get('extra', []):
        import importlib
        m = importlib.import_module(modname)
        out.extend(m.obligations(pid, tier))
    return out


def load_findings():
    path = os.path.join(HERE, 'known_findings.json')
    if not os.path.exists(path):
        return []
    with open(path) as fh:
        return json.load(fh)['findings']


def load_lock():
    path = os.path.join(HERE, 'obligations.lock')
    if not os.path.exists(path):
        return {}
    with open(path) as fh:
        return json.load(fh)


def write_replay(pid, name, payload):
    d = os.path.join(HERE, 'replays', ('_scratch/' if os.environ.get('VERIF_NO_EVIDENCE') else '') + pid)
    os.makedirs(d, exist_ok=True)
    safe = ''.join(ch if ch.isalnum() or ch in '._-' else '_' for ch in name)[:120]
    path = os.path.join(d, safe + '.json')
    with open(path, 'w') as fh:
        json.dump(payload, fh, indent=1, default=str)
    return os.path.relpath(path, HERE)


def main():
    ap = argparse.ArgumentParser()
    ap.add_argument('prop', nargs='?')
    ap.add_argument('--tier', default=None)
    ap.add_argument('--replay')
    ap.add_argument('--setup', action='store_true')
    ap.add_argument('--update-lock', action='store_true')
    a = ap.parse_args()
    tier = a.tier or os.environ.get('VERIF_TIER') or 'quick'     # an explicit --tier (as in MANIFEST commands) wins
    if tier not in ('quick', 'thorough'):
        tier = 'quick'
    seed = int(os.environ.get('VERIF_SEED', '0') or 0)
    if a.setup:
        return setup()
    pid = a.prop
    if pid not in PROPS:
        print(f'unknown property {pid}')
        return 3
    if a.replay:
        return replay(pid, a.replay)
    return check(pid, tier, seed, a.update_lock)


def setup():
    import z3
    ok = True
    print('z3', z3.get_version_string())
    for tool in ('/usr/bin/cvc5', '/usr/bin/z3', VENV_PY):
        print(tool, os.path.exists(tool))
        ok &= os.path.exists(tool)
    from pyvc import axioms
    bad = axioms.validate()
    for b in bad:
        print('AXIOM FAILED:', b)
    return 0 if ok and not bad else 3


def replay(pid, path):
    with open(os.path.join(HERE, path) if not os.path.isabs(path) else path) as fh:
        payload = json.load(fh)
    if payload.get('case') is None:
        print(f'replay file names obligation {payload.get("obligation")} (no concrete input): verifier output follows')
        print(json.dumps(payload.get('verifier_output'), indent=1)[:4000])
        return 1
    mod = os.path.join(HERE, 'bounded', pid.lower() + '.py')
    env = dict(os.environ, PYTHONPATH=f'{REPO_SRC}:{HERE}')
    p = subprocess.run([VENV_PY, mod, '--replay', os.path.abspath(os.path.join(HERE, path))], env=env, cwd=HERE)
    return p.returncode


def check(pid, tier, seed, update_lock=False):
    t0 = time.time()
    cfg = PROPS[pid]
    violations, known_hits, undecided, notes = [], [], [], []
    # ---------------------------------------------------------------- axioms (exit 3 on failure)
    from pyvc import axioms
    bad = axioms.validate()
    if bad:
        for b in bad:
            print('AXIOM FAILED:', b)
        return 3
    # ---------------------------------------------------------------- proofs
    try:
        reports = run_proofs(pid, tier)
        extra = run_extra(pid, tier)
    except Exception as e:      # engine crash is never a violation
        import traceback
        traceback.print_exc()
        print(f'CHECKER-DEFECT property={pid} {type(e).__name__}: {e}')
        return 3
    all_obs = []
    functions = []
    for r in reports:
        functions.append({'function': r['qual'], 'kind': r['kind'], 'paths': r['paths'],
                          'obligations': len(r['obligations']),
                          'discharged': sum(o['status'] == 'discharged' for o in r['obligations']),
                          'time_s': r['time_s'], 'undecided_reason': r['error'],
                          'source': (r['source'] or {}).get(r['qual'])})
        for o in r['obligations']:
            o['function'] = r['qual']
            all_obs.append(o)
        if r['error']:
            undecided.append({'obligation': f'{pid}:{r["qual"]}:*', 'reason': r['error']})
    for o in extra:
        all_obs.append(o)
    # vacuity guard: a claimed proof must generate obligations
    lock = load_lock().get(pid, [])
    fam_status = {}
    for o in all_obs:
        cur = fam_status.get(o['name'])
        rank = {'refuted': 3, 'undecided': 2, 'discharged': 1}
        if cur is None or rank[o['status']] > rank[cur]:
            fam_status[o['name']] = o['status']
    n_ob = len(all_obs)
    n_dis = sum(o['status'] == 'discharged' for o in all_obs)
    # ---------------------------------------------------------------- bounded stand-in
    try:
        bounded = run_bounded(pid, tier, seed)
    except subprocess.TimeoutExpired:
        bounded = {'crashed': True, 'stderr': 'timeout'}
    if bounded is not None and bounded.get('crashed'):
        print(f'CHECKER-DEFECT property={pid} bounded stand-in crashed:\n{bounded.get("stderr")}')
        return 3
    findings = load_findings()
    known = [f for f in findings if f['property'] == pid and f['status'] == 'known']
    if bounded is not None:
        for fail in bounded.get('failures', []):
            hit = next((k for k in known if k['key'] == fail.get('key')), None)
            if hit is not None:
                known_hits.append((hit, fail))
            else:
                violations.append(('bounded', fail))
    # ---------------------------------------------------------------- decide obligations
    for name, st in sorted(fam_status.items()):
        obs = [o for o in all_obs if o['name'] == name and o['status'] == st]
        if st == 'refuted':
            o = obs[0]
            hit = next((k for k in known if k['key'] == name), None)
            if hit is not None:
                known_hits.append((hit, {'what': name}))
                continue
            # a failing concrete input found by the stand-in for this property is the replay
            if violations and any(v[0] == 'bounded' for v in violations):
                notes.append(f'obligation {name} refuted; concrete failing input supplied by the stand-in')
                print(f'REFUTED property={pid} obligation={name} backend={o.get("backend")} (failing input: see the VIOLATION lines of the stand-in)')
                continue
            # the lock works at function granularity: a function whose obligations were discharged on
            # the unchanged tree no longer satisfies its contract (this includes obligation names that
            # did not exist before, e.g. `unexpected-exception[...]` for a path that now raises)
            locked_funcs = {':'.join(n.split(':')[:2]) for n in lock}
            if o.get('exact', True) and (name in lock or not lock or ':'.join(name.split(':')[:2]) in locked_funcs):
                violations.append(('obligation', o))
            else:
                undecided.append({'obligation': name, 'reason': 'sat in an abstracted encoding, no native failing input found'})
        elif st == 'undecided':
            undecided.append({'obligation': name, 'reason': obs[0].get('reason') or 'unknown'})
    for name in lock:
        if name not in fam_status:
            undecided.append({'obligation': name, 'reason': 'obligation no longer generated (function left the modelled subset or was restructured)'})
    # ---------------------------------------------------------------- report
    rc = 0
    for hit, fail in known_hits:
        print(f'KNOWN-FINDING: property={pid} {hit["what"]}')
    seen_keys = set()
    for kind, v in violations:
        if kind == 'bounded':
            if v.get('key') in seen_keys:
                continue
            seen_keys.add(v.get('key'))
            path = write_replay(pid, v.get('key', 'case'), {
                'property': pid, 'obligation': v.get('obligation'), 'case': v.get('case'),
                'what': v.get('what'), 'expected': v.get('expected'), 'observed': v.get('observed'),
                'replay_cmd': f'./check {pid} --replay <this file>'})
            print(f'VIOLATION property={pid} replay={path}')
            print(f'  {v.get("what")}')
        else:
            path = write_replay(pid, v['name'], {
                'property': pid, 'obligation': v['name'], 'case': None,
                'verifier_output': {'status': v['status'], 'backend': v.get('backend'),
                                    'model': v.get('model'), 'function': v.get('function')}})
            print(f'VIOLATION property={pid} replay={path} no-failing-input-found')
            print(f'  obligation {v["name"]} refuted by {v.get("backend")}: {str(v.get("model"))[:300]}')
        rc = 1
    for u in undecided:
        print(f'UNDECIDED property={pid} obligation={u["obligation"]} reason={u["reason"]}')
    if rc == 0 and undecided and bounded is None:
        rc = 2
    level = cfg['level']
    coverage = {
        'obligations': n_ob, 'discharged': n_dis,
        'checker_cmd': f'./check {pid} --tier {tier}  (pyvc: AST->VC over /repo/src/serif, z3 {z3ver()} python API; cvc5 1.0.3 / z3 4.8.12 CLI on unknown)',
        'trusted_base': TRUSTED_COMMON + cfg.get('trusted', []),
        'functions_under_contract': functions,
        'obligation_families': {k: v for k, v in sorted(fam_status.items())},
        'backends': sorted({o.get('backend') for o in all_obs if o.get('backend')}),
        'solver_time_s': round(sum(o.get('time_s', 0) for o in all_obs), 3),
        'undecided': undecided,
        'extraction_drops': __import__('pyvc.extract', fromlist=['DROPS']).DROPS,
        'samples': [{'obligation': o['name'], 'status': o['status'], 'backend': o.get('backend'),
                     'function': o.get('function')} for o in all_obs[:3]],
        'explanation': cfg['explanation'],
    }
    if bounded is not None:
        coverage['bounded_stand_in'] = {k: bounded.get(k) for k in
                                        ('evaluations', 'distinct_nontrivial', 'rule', 'bound', 'exhaustive', 'samples', 'wall_s')}
        coverage['bounded_stand_in']['label'] = 'bounded (never counted in discharged)'
        coverage['evaluations'] = bounded.get('evaluations', 0)
        coverage['distinct_nontrivial'] = bounded.get('distinct_nontrivial', 0)
        coverage['rule'] = bounded.get('rule', '')
        if level != 'proof' or n_ob == 0:
            coverage['samples'] = (bounded.get('samples') or [])[:5] + coverage['samples']
    if n_ob == 0:
        coverage.pop('obligations')
        coverage.pop('discharged')
    ev = {
        'property_id': pid, 'tier': tier, 'seed': seed, 'level': level, 'coverage': coverage,
        'assumptions': sorted(set(sum([r.get('assumptions', []) for r in reports], []) + cfg.get('assumptions', []))),
        'wall_s': round(time.time() - t0, 2), 'violations': len(violations),
        'known_findings_hit': [h['key'] for h, _ in known_hits],
    }
    if not os.environ.get('VERIF_NO_EVIDENCE'):      # (development runs against scratch trees)
        os.makedirs(os.path.join(HERE, 'evidence'), exist_ok=True)
        with open(os.path.join(HERE, 'evidence', pid + '.json'), 'w') as fh:
            json.dump(ev, fh, indent=1, default=str)
    if update_lock and rc == 0:
        lk = load_lock()
        lk[pid] = sorted(k for k, v in fam_status.items() if v == 'discharged')
        with open(os.path.join(HERE, 'obligations.lock'), 'w') as fh:
            json.dump(lk, fh, indent=1, sort_keys=True)
    print(f'{pid}: obligations={n_ob} discharged={n_dis} undecided={len(undecided)} '
          f'bounded_evaluations={(bounded or {}).get("evaluations")} violations={len(violations)} '
          f'known={len(known_hits)} wall={ev["wall_s"]}s exit={rc}')
    return rc


def z3ver():
    import z3
    return z3.get_version_string()


if __name__ == '__main__':
    sys.exit(main())
